#!/usr/bin/env python3
import json, sys, glob
import jsonschema
m=json.load(open('/verif/MANIFEST.json')); jsonschema.validate(m, json.load(open('/root/.vp/MANIFEST.schema.json')))
es=json.load(open('/root/.vp/EVIDENCE.schema.json'))
for c in m['checks']:
    try:
        jsonschema.validate(json.load(open(c['evidence_file'])), es); print(c['property_id'],'evidence ok')
    except Exception as e:
        print(c['property_id'],'EVIDENCE INVALID', str(e)[:300])
print("manifest valid")
