#!/usr/bin/env python3
"""Regenerates MANIFEST.json from the table below (kept here so the manifest stays valid)."""
import json, os, subprocess

ROOT = os.path.dirname(os.path.abspath(__file__))

# id -> (engine, category, technique, level text, level note, design ref)
CHECKS = {
 "C01": ("E1-inputs", "model_checking",
         "exhaustive enumeration of the input cross-product on the real header.Verify vs a reference oracle",
         "Every tuple of the cross product the property names (zero-ness, chain id, height relation incl. uint64 wrap, time vs trusted, time vs now at the exact drift boundary under a frozen virtual clock, every shape of type-level result, and ordered call pairs sharing one error object) is executed on the real function and compared with an independent 20-line reference; complete for the stated alphabet, so any classification bug expressible in it is found.",
         "Reference oracle and the 10s drift constant are trusted; values outside the alphabet are not covered.", "2.1 C01"),
 "C02": ("E1-inputs", "model_checking",
         "exhaustive enumeration of all header-kind sequences up to length L on the real VerifyRange vs a reference fold",
         "All sequences of length 0..4 (quick) / 0..6 (thorough) over 13 per-position header kinds (incl. type-level soft and plain rejections of a well-formed adjacent header, and the predecessor / trusted header itself once more), for non-zero and zero trusted headers, are run on the real VerifyRange; result must be input[:k] by identity with k computed by a reference fold, error iff k<len.",
         "Reference fold (C01 reference + adjacency) and the harness header type's Verify are trusted.", "2.1 C02"),
 "C04": ("E1-seqx", "model_checking",
         "explicit-state BFS over operation histories on the real store.Store (replay-from-scratch successors, state dedup), invariant oracle in every state; plus stateless DFS over thread schedules of Append/Sync/read (instrumented store package) for the 'once writes are synced' clause",
         "Breadth-first exploration of every history (depth 3 quick / 4 thorough) over Append of all contiguous slices (len<=3, ascending and reversed; thorough: gapped pairs), tail/head/whole/middle/beyond DeleteRange, Append directly followed by DeleteRange on a slow datastore (flush still in flight), Restart, Restart followed by the header right above Head, and ReadAll, plus a clean-restart probe on every state of the last level, for batch sizes {1,2,(3),64} x cache sizes {2,default} x {plain, context-aware+txn} datastore, on the real Store inside a synctest bubble; in every reached state the C04 clauses (gap-free Tail..Head, lookups by height/hash agree, Has/HasAt, all GetRange pairs, Height==Head, Head top of run, every live header readable) are evaluated against a set-of-live-heights model.",
         "State key omits 2Q ghost lists; chain of 5-6 headers; Sync+quiescence after each op (the property is stated for synced writes).", "2.2 C04"),
 "C08": ("E1-seqx", "model_checking",
         "explicit-state enumeration: every reachable store state x every (from,to) pair x continuation x single write-fault position, executed on the real store and compared with the reference model",
         "For each distinct state from the BFS (depth 2 quick / 3 thorough), all (from,to) pairs over 10 relative positions incl. 0 and 2^64-1, with/without a reading OnDelete handler; rejected ranges must leave observation vector and raw datastore image identical; accepted ones must remove raw keys, pending entries and every lookup, keep outside headers, set pointers, and stay deleted across 8 continuations (restart, appends, re-append); every pair again with one more header appended right before the call and still in the write queue (slow datastore); every position of one failing datastore write during the delete is enumerated with the part-way-failure oracle and retry; a handler that rejects every height >= X (X over the first positions of the range) is a second part-way failure, run on the sequential path and, with the parallel path forced through the threshold hook, on the parallel path (several workers fail in one call): rejected heights stay readable, the error is surfaced, a retry from the reported Tail completes.",
         "Open finding F06 (write-fault path on a plain datastore) is reported as KNOWN-FINDING (F07 fixed); fault model = one failing write attempt (put/delete/batch/commit).", "2.2 C08"),
 "C14": ("E1-seqx", "fault_enumeration",
         "exhaustive enumeration of handler fault positions (handler i, invocation k, error|panic) over every reachable state x accepted range, sequential and parallel deletion path, on the real store; plus stateless DFS over the thread schedules of concurrent OnDelete registrations (instrumented store package)",
         "Every accepted range in every BFS state, with 1 and 2 registered handlers that read the header through GetByHeight, no fault and every (i,k,error|panic|error wrapping datastore.ErrNotFound); oracle: per removed height each handler exactly once, header readable inside the handler, no datastore delete of its keys in the commit log before the last handler returned, failing height stays readable, error surfaced, tail-side retry re-invokes handlers and completes; plus a handler rejecting every height >= X (several parallel workers failing at different heights): Tail never moves past X, nothing >= X is removed, the retry re-invokes the handler exactly once per remaining height. The parallel path is reached by lowering the threshold through the verif hook. Schedule part (engine E2): every schedule with <= 1 preemption (thorough <= 2) of three concurrent OnDelete registrations; afterwards one header is deleted and every registered handler must have been called exactly once.",
         "In the explicit-state part the parallel path runs with real goroutines inside the bubble (outcomes forced by the rejecting handler); its interleavings are enumerated separately by the schedule part: DeleteRange(1,6) on c1..c6 through the parallel path (threshold hook 2, three workers under GOMAXPROCS=1, dispatcher and workers controlled) with a handler that reads the header and rejects the heights of R in {{}, {3}, {2,4}} (thorough also {1}, {5}, {1,2}, {4,5}), all schedules with <= 1 preemption, oracle: handler sees the header readable, at most one call per height, removed => handler returned nil once, rejected heights stay readable, error iff a handler failed, Tail <= min R, and the retry after the handler recovered completes calling the handler exactly once for what was still there.", "2.2 C14"),
 "C06": ("E3-crashx", "fault_enumeration",
         "exhaustive crash-point enumeration (every commit-log prefix of every transition of the explored state graph) and exhaustive placement of 1..3 consecutive failing flush writes, on the real store",
         "BFS over {Append slices, DeleteRanges, Restart} (depth 3 quick / 4 thorough) x batch sizes x datastore flavour; (a) in every state a clean Stop/Start must reproduce the whole observation vector; (b) for every transition every prefix of the datastore commit log inside the last operation and the final Stop is reopened by a fresh Store: Start succeeds, Head/Tail resolve, no gap, committed headers retrievable, no dangling pointer, appending the continuation moves Head to the tip; (c) every placement of 1..3 failing batch-creation/commit writes is driven to quiescence in virtual time (retry back-off) and checked with the C04 oracle + restart.",
         "Crash granularity = one direct write or one batch commit; torn single writes are not modelled. The Stop-vs-flush-loop interleaving is not enumerated here (see C17/C12 engine). Open finding F08 reported as KNOWN-FINDING.", "2.2 C06"),
 "C05": ("E1-netx", "fault_enumeration",
         "deviation-bounded exhaustive enumeration of peer misbehaviour assignments (28-entry catalogue x every request position incl. retries/remainders) against the real Exchange over libp2p mocknet in a synctest bubble; plus stateless DFS over the thread schedules of the session (instrumented p2p package) with preemption bounding",
         "The real p2p.Exchange.GetRangeByHeight runs against scripted peers; deviations are bound to the n-th request for an origin (so peer selection order cannot change the outcome) and enumerated breadth-first: every single deviation at every request position, then every second (thorough: third) deviation at every position the first run exposes, for chunk sizes {1,2,3,(5)}, 1-4 peers, deadline-honouring and deadline-ignoring transports, plus all degenerate (to<=from+1) requests. Oracle: no panic, degenerate => prompt error, a nil error => non-empty exact run from+1.. below to of the honest chain headers. Schedule part (engine E2 on the p2p package, real honest servers): every schedule with <= 1 preemption (thorough <= 2) of the caller, the session dispatcher, the per-request goroutines and the tracker for a single request answered partially and completed by another peer (both peer orders), two and three chunks on two peers; the result must be exactly from+1..to-1 ascending.",
         "mocknet transport with a deadline decorator; forged headers carry a foreign signature (no equivocation by key holders).", "2.4 C05"),
 "C09": ("E1-netx", "model_checking",
         "exhaustive enumeration of ordered arrival sequences of peer answers (imposed by release gates) against the real Exchange.Head, compared step by step with a reference fold of the quorum rule",
         "Every ordered sequence over {A, A' conflicting, B higher, older, error, hang} for 1-4 (reduced alphabet: 5, thorough 6) trusted peers and over {A, A', B, hard x2, soft, error, hang} for 1-4 tracked peers with WithTrustedHead (1-2 peers also with every peer disconnected beforehand, i.e. the fallback to trusted peers); after each single arrival the harness observes whether Head has returned, so 'returns as soon as a quorum exists', quorum arithmetic per n, highest-head fallback, ErrNotFound, soft-failure pairing and never returning hard-failing heads are all decided per sequence.",
         "More than 4 tracked peers (random subset of map order) is not enumerated; hang + caller deadline coincidences accept either allowed outcome.", "2.4 C09"),
 "C10": ("E1-netx", "model_checking",
         "exhaustive enumeration of the request input product (origin x amount relative to tail/head incl. overflow, hashes, raw frames) against the real ExchangeServer over a real pruned store behind a recording proxy",
         "All (origin, amount) pairs over 12 x 9 boundary values, hash and raw-byte requests, against stores [5..30], [1..12], [20..150], empty (thorough: [40..200], [1..70]); deviation bound 1: the store grows by {3,100} headers right after the k-th store call of a range request, for every k its fault-free run makes, and the k-th store call stalls until the context the server gave it ends (the handler must be released by the server's own timeout); two-request histories on one server instance: {head, range ending at the head, hash of the head}, then the store's head side is rolled back by 1 or 3 headers and re-grown on another fork, then {head, range, hash of the new head, hash of the deleted head} (24 histories): every OK body is the store's current header; oracle on reply shape/content and on work: headers asked from the store <= min(amount,64), no store call outside the requested heights, datastore reads bounded.",
         "Work measured at the Store interface and as datastore reads of the real store.", "2.4 C10"),
 "C11": ("E1-netx", "model_checking",
         "exhaustive enumeration of payload x verifier-outcome classes on the real topic validator, plus the same classes through real gossipsub (delivery and relay observed)",
         "13 payload classes x 11 verifier outcomes x {metrics off, on} (286, complete) plus two-message histories on one Subscriber (5 kinds of earlier message x 13 payloads x 8 verifier outcomes x {header type decoding into a fresh value, decoding straight into its receiver}, 1040, same oracle for the second message) run on the Subscriber's real validator via the verif export: verdict must equal the reference mapping, verifier never called for undecodable/invalid payloads, ValidatorData is the decoded header, no panic escapes, waiting for a late SetVerifier works; 11 classes are additionally published over a 3-node gossipsub line to observe delivery to Subscriptions and relay.",
         "Peer-score effects are inferred from the validation result (pubsub semantics trusted).", "2.4 C11"),
 "C13": ("E1-netx", "fault_enumeration",
         "exhaustive enumeration of per-peer answer assignments (20-entry catalogue; single-peer cases also after one successful warm-up request) and arrival orders for 1-3 (thorough 4) trusted peers against the real Exchange.Get/GetByHeight",
         "All assignments for n=1,2, reduced x full for n=3 (thorough: full 17^3, n=4 with <=2 bad), all 6 arrival permutations for the reduced catalogue; x {Get, GetByHeight} x {present, absent, zero target} x chain id {set, unset} x transport {honours, ignores deadlines}. Oracle: never (zero,nil), no panic, returned header validated/right chain/right hash, some peer really sent it, first valid answer wins, error when none valid, returns by the caller's deadline.",
         "A header type whose own UnmarshalBinary panics is excluded (type-level).", "2.4 C13"),
 "C18": ("E1-netx", "model_checking",
         "exhaustive enumeration of the configuration product (chunk size, range length 1..3m, peers, per-peer availability vectors, one benign fault x faulty peer) with real ExchangeServers and the real Exchange over mocknet; plus stateless DFS over the thread schedules of the session (instrumented p2p package) with preemption bounding",
         "m in {1,2,3,5,64}, L=1..3m (64: {1,63,64,65,128,150}), 1-3 (thorough 4) honest peers with availability in {empty, up to from, half, full}^P (>=1 full), faults {none, slow beyond RequestTimeout (also on a transport that ignores deadlines: a late but complete answer), disconnect after first answer, store grows, connection dropped 1ms / 4ms into the call while every answer takes 3ms (peer idle in the session queue)}; result must be exactly from+1..to-1 ascending with nil error before the caller's deadline; plus Head/Get/GetByHeight byte-exact round trips. Schedule part: the same scenarios as C05's schedule part (all schedules with <= 1 preemption, thorough <= 2, of the client's goroutines against real servers).",
         "At most one benign fault per run; servers use a simple honest in-memory store; in the schedule part a network round trip is atomic within the requesting thread's step.", "2.4 C18"),
 "C03": ("E1-syncx", "model_checking",
         "explicit-state BFS over environment event histories (gossip deliveries, Head() calls, held getter answers, clock advances) on the real Syncer + real Store, oracle in every state; plus stateless DFS over thread schedules of the instrumented sync package with preemption bounding",
         "Event alphabet: deliver {next, skip 2/3, duplicate, stale, forged adjacent, forged far (bifurcation), bad link, wrong chain, future-dated}, Head(), answer of the held getter call {full, prefix, error}, advance {40s, 2h}; depth 4 quick / 6 thorough over trust ranges {unlimited, 2, (1)} and batch sizes; plus a lagging-peers pass (depth 6 / 8) where a held trusted-head request is answered with a soft-failing honest or forged header while gossip runs ahead; in every state: every stored header (datastore scan + pending) is the verified chain's header, the store is one run Tail..Head, every invalid delivery returned an error, no unverified header is pending / the sync target / the origin of a range request. Schedule part (engine E2 on the sync package): all schedules with <= 1 preemption (thorough <= 2) of concurrent gossip handler threads and the sync loop (target vs duplicate vs stale; three heads in any order; two pending ranges handed to an asynchronous store while a head is appended to the last one; two overlapping Head() callers on a stale head whose shared request is answered with a forged far header and a soft failure: no caller returns or promotes it; thorough: forged vs honest target); only chain headers stored in one run, every accepted head synced.",
         "Event granularity (bubble quiescence between events); while a delivery is parked in bifurcation no second delivery is issued (sync.Mutex blocking is invisible to synctest); zero headers are not delivered (the Subscriber never produces them).", "2.3 C03"),
 "C07": ("E1-syncx", "model_checking",
         "explicit-state BFS over event histories with an honest held getter on the real Syncer + Store; quiescent-state oracle plus a recovery probe from every quiescent state; plus stateless DFS over thread schedules of the instrumented sync package with preemption bounding",
         "Events: deliver honest {next, skip 2, skip 3}, Head(), answer {full, prefix of 1, error}, advance 40s; depth 5 quick / 7 thorough; plus a configuration with a stale head and trusted peers lagging behind gossip (a trusted-head request answered with the header gossip already delivered). At every quiescent state: store head == highest verified head, State finished without error and SyncWait returns, unless a getter error aborted the attempt; and from every quiescent state one more valid head plus honest answers must complete the sync (so a lost trigger or wedged loop is a state, not a timeout). Schedule part: all schedules with <= 1 preemption (thorough <= 2) of head deliveries racing with the sync loop, getter calls and a controlled asynchronous store (burst of heads during a running sync; sequential A,B,C deliveries vs D; getter error then next head): the store head reaches the highest accepted head and no error is left.",
         "Event granularity; liveness is evaluated at bubble quiescence in virtual time.", "2.3 C07"),
 "C15": ("E1-syncx", "model_checking",
         "exhaustive enumeration of (distance, trust range, candidate kind, failing fetch position) on the real gossip verifier with a real store",
         "Subjective head in {1,5}, distance 2..12 (thorough 24), trust range 1..d and unlimited, honest or forged candidate, and for each the failure of every single intermediate fetch the fault-free run performs, as a generic error or ErrNotFound, once or for every fetch from that one on, and after a one-off failure the same candidate is delivered again; accept iff honest and no needed fetch failed, refusal leaves the candidate neither pending nor stored, only chain headers are promoted, fetch count bounded by d*(floor(log2 d)+1); plus a header type that reports a soft failure for the header adjacent to the subjective head (d = 1..6, trust range {1, 2, unlimited}): the search terminates within the bound and the candidate is refused.",
         "Getter honest apart from injected fetch errors.", "2.3 C15"),
 "C16": ("E1-syncx", "model_checking",
         "exhaustive enumeration of the Validate-accepted parameter product x chain shapes x stores x reconfiguration pairs through the Syncer's public API",
         "PruningWindow {0,w/2,w,3w} x SyncFromHeight {0,1,3,6,h0,N,N+3} x SyncFromHash {none, below tail, mid, head, unknown} x blockTime {unset,b,10b} x trustingPeriod {small, large} x chain shapes {uniform, fast, slow, halted mid/tip, young, bursty, slow-then-fast, fast-then-slow} x stores {empty, [1..h0], [4..h0]}; each step is Start, Head() and gossip delivery of the whole chain with the tip first (so the tail is re-estimated across a gap with a store present); and all ordered pairs (thorough: triples) of 9 parameter sets as reconfigurations; oracle: no panic, Start/Head return and fail only for a non-existent tail, store stays one gap-free chain with 1<=Tail<=Head, nothing inside the window is pruned when spacing <= blockTime, getter never asked for heights outside the chain.",
         "Open finding F13 reported as KNOWN-FINDING.", "2.3 C16"),
 "C19": ("E1-syncx", "model_checking",
         "explicit-state BFS over histories of Head() calls, clock advances, deliveries and held trusted-head answers on the real Syncer, per-call and per-state oracle; plus stateless DFS over thread schedules of three concurrent Head() callers (instrumented sync package)",
         "Stores {empty, fresh, stale, expired head (peers fresh / peers expired), stale head with trusted peers lagging behind gossip, the same with the store write of the reported head stalled and then failed or completed (depth +2, small alphabet)}; events Head(), deliver next, advance {3s, 40s, 4000s}, answers of the held trusted-head request {newer, same, one above the verified head, tip, error, soft+header} and of the initialisation request {fresh tip, old, error}; depth 5 quick / 7 thorough. Per completed Head(): no request when recent, exactly one request carrying the subjective head when stale, re-initialisation asks the trusted peers (request without trusted head) and only adopts heads that are not expired when the trusted peers' answer arrives; per state: at most one head request in flight (single flight), every group of overlapping callers on one stale head causes exactly one request, and results never decrease in completion order. Schedule part: all schedules with <= 1 preemption (thorough <= 2) of three concurrent Head() callers on a stale head: exactly one request carrying the subjective head, results never decrease.",
         "Overlapping Head() callers are explored at event granularity (a second call while the first one's request is held).", "2.3 C19"),
 "C12": ("E2-schedx", "model_checking",
         "stateless DFS over thread schedules with iterative preemption bounding on the real store code (instrumented copy generated from the working tree, controlled scheduler on synctest quiescence)",
         "Every synchronisation operation of the store package (mutex/rwmutex/once/waitgroup, atomics, channel send/recv/close/select, goroutine start) and every datastore operation is a scheduling point; all schedules with <= 1 preemption (quick; thorough <= 2, one more attempted) are enumerated for: reader vs contiguous append, reader vs gapped-then-filled append, two readers + canceller + writer, missing height below Height(), cancelled reader, reader vs the first batch and the very first header of an empty store, a batch with a gap around the waited height, a descending batch above a gap, gapped-never-filled, (thorough) two readers vs out-of-order writers; batch sizes 1 and 64; the contiguous, gapped-batch and gapped-then-filled scenarios again on the context-aware datastore flavour (write batches, snapshot read transactions; taking the snapshot is a scheduling point). Oracle per execution: the reader gets the appended header and never its deadline (a lost wake-up is a reader only released by virtual time), ErrNotFound / cancellation without time passing, no deadlock.",
         "Unsynchronised accesses between two scheduling points are not interleaved; weak memory is not modelled; Go's own choice among select clauses becoming ready simultaneously while a thread is blocked is not owned.", "2.2 C12"),
 "C17": ("E2-schedx", "model_checking",
         "stateless DFS over thread schedules with iterative preemption bounding on the real store code (instrumented copy), per-execution oracle and comparison with the sequential result",
         "Scenarios: two writers (gap then fill) + reader doing Head/Height/GetByHeight/Get rounds; append+Sync then read from another thread; Sync from another thread after Append returned followed by non-waiting reads; tail-side DeleteRange racing with one and with two separate appends; DeleteRange(Tail, Head+1) racing with the append of exactly header Head+1 (T7: the ordinary tail-side outcome is checked against the sequential result; the whole-chain outcome is open finding F24); (thorough) three out-of-order writers + reader; batch sizes 1, 2, 64; all schedules with <= 1 preemption (quick; thorough <= 2, one deeper attempted). Oracle: Head().Height() and Height() never decrease within a reader, Head's header is retrievable by height and by hash, synced headers are readable from any thread, final store equals the sequential execution and is gap-free.",
         "Open finding F24 (whole-chain deletion racing an append) is reported as KNOWN-FINDING. Same scheduling-point granularity as C12; the randomised real-thread -race pass named in the statement is auxiliary (tools/racepass.sh), not the deciding step.", "2.2 C17"),
}

NOT_APPLICABLE = {}

def main():
    hooks_commits = []
    try:
        out = subprocess.run(["git", "-C", "/repo", "log", "--format=%h %s"], capture_output=True, text=True).stdout
        for line in out.splitlines():
            if line.split(" ", 1)[1].startswith("verif:"):
                hooks_commits.append(line.split()[0])
    except Exception:
        pass
    props = [json.loads(l)["id"] for l in open(os.path.join(ROOT, "properties.jsonl"))]
    checks = []
    for pid in props:
        if pid not in CHECKS:
            continue
        eng, cat, tech, text, note, ref = CHECKS[pid]
        checks.append({
            "property_id": pid,
            "quick_cmd": "./check %s quick" % pid,
            "thorough_cmd": "./check %s thorough" % pid,
            "evidence_file": "/verif/evidence/%s.json" % pid,
            "replay_cmd_template": "./check %s --replay {path}" % pid,
            "engine": eng,
            "level_claimed": {"category": cat, "text": text, "design_ref": "DESIGN.md section " + ref},
            "level_note": note,
            "technique": tech,
        })
    na = []
    for pid in props:
        if pid not in CHECKS:
            na.append({"property_id": pid, "reason": NOT_APPLICABLE.get(pid, "check not built yet in this session (planned, see DESIGN.md section 2); not claimed until its check exists")})
    m = {
        "version": 1,
        "setup_cmd": "./setup.sh",
        "hooks": {
            "guard": "verif (Go build tag)",
            "enable": "go test -tags verif (the ./check driver passes it); hook files are add-only *_verif.go files with //go:build verif",
            "baseline_off_cmd": "cd /repo && GOFLAGS=-mod=mod GOPROXY=off go test -json -vet=off -count=1 -timeout 25m ./...",
            "source_commits": hooks_commits,
            "add_only": True,
        },
        "engines": [
            {"name": "E0-bubble", "path": "harness/vk/bubble.go", "serves_properties": props, "kind_free_text": "testing/synctest bubble: virtual time, exact quiescence, leak/deadlock detection"},
            {"name": "E1-inputs", "path": "harness/pure", "serves_properties": ["C01", "C02"], "kind_free_text": "exhaustive input-product enumeration on the real functions vs reference oracle"},
            {"name": "E1-netx", "path": "harness/p2px", "serves_properties": ["C05", "C09", "C10", "C11", "C13", "C18"], "kind_free_text": "real Exchange/ExchangeServer/Subscriber over libp2p mocknet inside a synctest bubble; scripted peers keyed by (origin, attempt), release gates for arrival order, deadline-honouring stream decorator"},
            {"name": "E1-syncx", "path": "harness/syncx", "serves_properties": ["C03", "C07", "C15", "C16", "C19"], "kind_free_text": "real sync.Syncer + real store.Store in a synctest bubble with a scripted contract-abiding getter (calls held until answered), capturing subscriber and virtual clock; BFS over event histories"},
            {"name": "E2-schedx", "path": "harness/vrtsrc + harness/cmd/instrument + harness/schedx", "serves_properties": ["C12", "C17", "C14", "C04", "C03", "C07", "C19", "C05", "C18"], "kind_free_text": "(harness/schedx on store, harness/schedsync on sync, harness/schedp2p on p2p) controlled scheduler (one runnable thread at a time, decisions at synctest quiescence), source-to-source instrumentation of the repository package through a build overlay, stateless DFS with preemption bounding sharded over single-threaded worker processes"},
            {"name": "E1-seqx", "path": "harness/vk/bfs.go + harness/storex", "serves_properties": ["C04", "C06", "C08", "C14"], "kind_free_text": "explicit-state BFS over operation histories on the real store (fresh instance + replay per successor, canonical state key), LogDS commit-log/fault-injecting datastore"},
        ],
        "checks": checks,
        "not_applicable": na,
        "notes": "All checks are Go test binaries built by ./check from /repo's working tree (module replace => /repo, build tag verif). Exit 0 held / 1 VIOLATION / 2 harness error.",
    }
    json.dump(m, open(os.path.join(ROOT, "MANIFEST.json"), "w"), indent=1)
    print("wrote MANIFEST.json with", len(checks), "checks,", len(na), "not claimed")

if __name__ == "__main__":
    main()
