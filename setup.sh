#!/bin/sh
# Offline setup: warm the Go build cache by compiling every harness test binary
# (with the `verif` build tag) from files on disk only.
set -e
cd "$(dirname "$0")"
export GOFLAGS=-mod=mod GOPROXY=off GOTOOLCHAIN=auto
unset GOSUMDB
mkdir -p .out evidence replays
cp /repo/go.sum harness/go.sum
cd harness
for pkg in $(ls -d */ | tr -d / | grep -v -e '^vk$' -e '^probe$' -e '^cmd$' -e '^vrtsrc$' -e '^schedx$' -e '^schedsync$' -e '^schedp2p$'); do
  if ls $pkg/*_test.go >/dev/null 2>&1; then
    go test -c -tags verif -vet=off -o ../.out/$pkg.test ./$pkg
  fi
done
# schedule-explorer packages are built against an overlay of instrumented repository sources
go build -o ../.out/instrument ./cmd/instrument
for spec in "schedx:store" "schedsync:-trace setLocalHead sync" "schedp2p:-sortmap peers p2p"; do
  pkg=${spec%%:*}; src=${spec#*:}
  if ls $pkg/*_test.go >/dev/null 2>&1; then
    rm -rf ../.out/overlay-$pkg
    ../.out/instrument -repo /repo -out ../.out/overlay-$pkg -rt "$(pwd)/vrtsrc" $src
    go test -c -tags verif -vet=off -overlay ../.out/overlay-$pkg/overlay.json -o ../.out/$pkg.test ./$pkg
  fi
done
echo "setup ok"
