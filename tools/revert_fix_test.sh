#!/bin/bash
# revert_fix_test.sh <commit> <PROP> : reverse-applies a fix commit to /repo's working tree, runs the quick
# check (must report a VIOLATION), restores the tree.
C=$1; P=$2
cd /repo || exit 2
[ -n "$(git status --porcelain)" ] && { echo "REPO DIRTY"; exit 2; }
if ! git show $C -- . ':!*_verif.go' | git apply -R --3way 2>/tmp/rft.err; then git checkout -- .; git reset -q; echo "CANNOT REVERSE $C: $(head -2 /tmp/rft.err)"; exit 3; fi
git reset -q
cd /verif; ./check $P quick > /tmp/rft-$C-$P.log 2>&1; rc=$?
cd /repo; git checkout -- .
echo "revert=$C prop=$P exit=$rc violations=$(grep -c '^VIOLATION' /tmp/rft-$C-$P.log)"
grep -m2 -A2 '^VIOLATION' /tmp/rft-$C-$P.log | cut -c1-300
