#!/bin/sh
# Auxiliary, sampling pass (never decides a property): the schedule-explorer thread bodies run
# free on the uninstrumented store under the race detector. Exit 0 = no race reported.
cd "$(dirname "$0")/../harness" || exit 2
export GOFLAGS=-mod=mod GOPROXY=off GOTOOLCHAIN=auto GOLOG_LOG_LEVEL=error GOLOG_OUTPUT=file GOLOG_FILE=/dev/null VERIF_RACEPASS=1
cp /repo/go.sum go.sum
go test -race -tags verif -vet=off -count=1 -run '^TestRacePass$' ./storex
