#!/bin/bash
# seedtest_wt.sh <seed-name> <PROP> [tier] : like seedtest.sh but never touches /repo's working tree:
# a scratch worktree of /repo HEAD (plus /repo's uncommitted changes, if any) gets the seeded change
# and the check runs against it through VERIF_REPO. The worktree and its outputs are removed afterwards.
S=/verif/seeded/$1; P=$2; T=${3:-quick}
WT=/tmp/st-$1
git -C /repo worktree remove --force $WT >/dev/null 2>&1; rm -rf $WT
git -C /repo worktree add -q --detach $WT HEAD || exit 2
PATCH=$S/patch.diff; [ -f $S/patch_rebased.diff ] && PATCH=$S/patch_rebased.diff
if ! git -C $WT apply --3way $PATCH 2>/tmp/seedtest-$1.err; then
  echo "PATCH DOES NOT APPLY: $(head -3 /tmp/seedtest-$1.err)"; git -C /repo worktree remove --force $WT; exit 3
fi
cd /verif; VERIF_REPO=$WT ./check $P $T > /tmp/seedtest-$1-$P.log 2>&1; rc=$?
echo "seed=$1 prop=$P tier=$T exit=$rc $(grep -c '^VIOLATION' /tmp/seedtest-$1-$P.log) violation lines"
grep -m3 -A2 '^VIOLATION' /tmp/seedtest-$1-$P.log | cut -c1-400
git -C /repo worktree remove --force $WT; rm -rf /verif/.out/alt-$(basename $WT)
