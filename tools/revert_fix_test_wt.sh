#!/bin/bash
# revert_fix_test_wt.sh <commit> <PROP> : like revert_fix_test.sh but in a scratch worktree of /repo HEAD driven
# through VERIF_REPO (the /repo working tree and the official evidence are not touched): reverse-applies the fix
# commit, runs the quick check (must report a VIOLATION), removes the worktree.
C=$1; P=$2; WT=/tmp/rf-$C
git -C /repo worktree remove --force $WT >/dev/null 2>&1; rm -rf $WT
git -C /repo worktree add -q --detach $WT HEAD || exit 2
if ! git -C /repo show $C -- . ':!*_verif.go' | git -C $WT apply -R --3way 2>/tmp/rft-$C.err; then echo "CANNOT REVERSE $C: $(head -2 /tmp/rft-$C.err)"; git -C /repo worktree remove --force $WT; exit 3; fi
cd /verif; VERIF_REPO=$WT ./check $P quick > /tmp/rft-$C-$P.log 2>&1; rc=$?
echo "revert=$C prop=$P exit=$rc violations=$(grep -c '^VIOLATION' /tmp/rft-$C-$P.log)"
grep -m2 -A2 '^VIOLATION' /tmp/rft-$C-$P.log | cut -c1-300
git -C /repo worktree remove --force $WT; rm -rf /verif/.out/alt-$(basename $WT)
