#!/bin/bash
for id in "$@"; do /verif/tools/confirm_seed.sh ${id}r3 /tmp/seed3-$id > /tmp/confirm3-$id.log 2>&1; done
