#!/bin/bash
# thorough_all.sh [ids...] : runs the thorough tier of the given (default: all) properties one after
# the other on /repo and appends a one-line verdict per property to .out/thorough.log
cd /verif
IDS="$@"; [ -z "$IDS" ] && IDS="C01 C02 C10 C11 C15 C16 C09 C13 C19 C14 C18 C05 C04 C08 C06 C07 C03 C12 C17"
for id in $IDS; do
  s=$(date +%s)
  ./check $id thorough > .out/thorough-$id.log 2>&1; rc=$?
  echo "$id rc=$rc $(( $(date +%s)-s ))s viol=$(grep -c '^VIOLATION' .out/thorough-$id.log) known=$(grep -c '^KNOWN-FINDING' .out/thorough-$id.log) $(grep '^OK' .out/thorough-$id.log | cut -c1-170)" >> .out/thorough.log
  # keep the quick-tier evidence as the committed one: thorough evidence is copied aside
  cp evidence/$id.json .out/evidence-thorough-$id.json 2>/dev/null
done
echo "done $(date)" >> .out/thorough.log
