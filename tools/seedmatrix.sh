#!/bin/bash
# seedmatrix.sh [pattern] : runs every seeded change in /verif/seeded (optionally only names matching
# the grep pattern) against the quick check of its own property and writes seeded/MATRIX.tsv
# (seed, property, exit code, first violation class). /repo is restored after each seed.
cd /verif
OUT=seeded/MATRIX.tsv
TMP=$(mktemp)
for d in seeded/*/; do
  name=$(basename $d)
  [ -n "$1" ] && ! echo "$name" | grep -q -e "$1" && continue
  prop=$(python3 -c "import json;print(json.load(open('$d/meta.json'))['property'])")
  res=$(tools/seedtest_wt.sh $name $prop 2>&1)
  rc=$(echo "$res" | grep -o 'exit=[0-9]*' | head -1 | cut -d= -f2)
  cls=$(echo "$res" | grep 'class:' | grep -v overflow | head -1 | sed 's/^ *class: //; s/  (x[0-9]*)$//')
  printf '%s\t%s\t%s\t%s\n' "$name" "$prop" "$rc" "$cls" | tee -a $TMP
done
if [ -z "$1" ]; then mv $TMP $OUT; else
  # merge: replace the re-run rows
  touch $OUT; grep -v -F -f <(cut -f1 $TMP) $OUT > $TMP.2; cat $TMP.2 $TMP | sort > $OUT; rm -f $TMP $TMP.2
fi
