#!/bin/bash
for id in "$@"; do /verif/tools/confirm_seed.sh ${id}r4 /tmp/seed4-$id > /tmp/confirm4-$id.log 2>&1; done
