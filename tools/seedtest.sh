#!/bin/bash
# seedtest.sh <seed-name> <PROP> [tier] : apply seeded change to /repo, run the check, revert. Prints verdict.
S=/verif/seeded/$1; P=$2; T=${3:-quick}
cd /repo || exit 2
if [ -n "$(git status --porcelain)" ]; then echo "REPO DIRTY"; exit 2; fi
PATCH=$S/patch.diff; [ -f $S/patch_rebased.diff ] && PATCH=$S/patch_rebased.diff
if ! git apply --3way $PATCH 2>/tmp/seedtest.err; then git checkout -- . ; git reset -q; echo "PATCH DOES NOT APPLY: $(head -3 /tmp/seedtest.err)"; exit 3; fi
git reset -q
cd /verif; ./check $P $T > /tmp/seedtest-$1-$P.log 2>&1; rc=$?
cd /repo; git checkout -- .; git status --porcelain
echo "seed=$1 prop=$P tier=$T exit=$rc $(grep -c '^VIOLATION' /tmp/seedtest-$1-$P.log) violation lines"
grep -m3 -A2 '^VIOLATION' /tmp/seedtest-$1-$P.log | cut -c1-400
