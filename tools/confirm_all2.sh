#!/bin/bash
for id in "$@"; do /verif/tools/confirm_seed.sh ${id}r2 /tmp/seed2-$id > /tmp/confirm2-$id.log 2>&1; done
