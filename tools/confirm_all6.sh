#!/bin/bash
for id in "$@"; do /verif/tools/confirm_seed.sh ${id}r6 /tmp/seed6-$id > /tmp/confirm6-$id.log 2>&1; done
