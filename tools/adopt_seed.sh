#!/bin/bash
# adopt_seed.sh <ID> <name> : copy a confirmed seed from /tmp/seed-<ID> into /verif/seeded/<name>/
ID=$1; NAME=$2; SD=${3:-/tmp/seed-$ID}; D=/verif/seeded/$NAME
mkdir -p $D
cp $SD/patch.diff $D/patch.diff
DEMO=$(python3 -c "import json;print(json.load(open('$SD/meta.json'))['demo_file'])")
cp $SD/$(basename $DEMO) $D/
python3 - <<PY
import json
m=json.load(open('$SD/meta.json')); c=json.load(open('$SD/confirm.json'))
out={"property":m.get("property","$ID"),"summary":m.get("summary"),"files_changed":m.get("files_changed"),
 "needs_to_manifest":m.get("needs_to_manifest"),"demo_file":"$(basename $DEMO)","demo_place_at":m.get("demo_place_at"),
 "demo_cmd":"go test "+m.get("demo_cmd","").split("go test")[-1].strip(),
 "confirmed_by_me":{"how":"tools/confirm_seed.sh in a scratch worktree of /repo HEAD (removed afterwards): patch applies+builds; unedited suite passes with the change (load-flaky packages re-run up to 3x); demo run 3x with and 3x without the change", **c},
 "author_notes":m.get("notes")}
json.dump(out,open('$D/meta.json','w'),indent=1)
PY
ls $D
