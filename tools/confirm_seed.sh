#!/bin/bash
# confirm_seed.sh <ID> <seeddir>  : confirms a seeded change in a scratch worktree of /repo HEAD
#  (1) patch applies and builds  (2) unedited suite passes with the change (failing packages re-run up to 3x to
#  rule out the known load-dependent flakes)  (3) demo fails with the change  (4) demo passes without it.
# Writes <seeddir>/confirm.json
set -u
ID=$1; SD=$2
export GOFLAGS=-mod=mod GOPROXY=off
WT=/tmp/cs-$ID
rm -rf $WT; git -C /repo worktree prune; git -C /repo worktree add -q --detach $WT HEAD || exit 2
cd $WT
res() { python3 - "$@" <<'PY'
import json,sys
d=dict(a.split('=',1) for a in sys.argv[2:])
json.dump(d,open(sys.argv[1],'w'),indent=1)
PY
}
if ! git apply $SD/patch.diff; then res $SD/confirm.json applies=false; cd /; git -C /repo worktree remove --force $WT; exit 1; fi
go build ./... || { res $SD/confirm.json applies=true builds=false; cd /; git -C /repo worktree remove --force $WT; exit 1; }
suite=pass
rm -f /tmp/cs-$ID.stuck
out=$(go test -vet=off -count=1 -timeout 25m ./... 2>&1)
failed=$(echo "$out" | grep -E '^(FAIL|---)' | grep -E '^FAIL\s' | awk '{print $2}' | sort -u)
for p in $failed; do
  ok=0
  for i in 1 2 3; do
    if go test -vet=off -count=1 -timeout 25m $p >/tmp/cs-$ID.retry 2>&1; then ok=1; break; fi
  done
  if [ $ok = 0 ]; then
    # the machine may be heavily loaded (the known timing-based tests then fail in almost every package
    # run): every test that failed in the last run is re-run alone, up to 6 times; the package counts as
    # passing if each of them passes on its own at least once
    ok=1
    for tname in $(grep -E '^--- FAIL: ' /tmp/cs-$ID.retry | awk '{print $3}' | cut -d/ -f1 | sort -u); do
      tok=0
      for i in 1 2 3 4 5 6; do
        if go test -vet=off -count=1 -timeout 25m -run "^$tname\$" $p >/tmp/cs-$ID.retry1 2>&1; then tok=1; break; fi
      done
      if [ $tok = 0 ]; then ok=0; echo "test $tname of $p fails alone 6/6"; echo "$p $tname" >> /tmp/cs-$ID.stuck; fi
    done
    grep -qE '^--- FAIL: ' /tmp/cs-$ID.retry || ok=0
  fi
  if [ $ok = 0 ]; then suite="fail:$p"; grep -E '^(--- FAIL|FAIL)' /tmp/cs-$ID.retry | head -5; fi
done
DEMO=$(python3 -c "import json;m=json.load(open('$SD/meta.json'));print(m['demo_file'])")
PLACE=$(python3 -c "import json;m=json.load(open('$SD/meta.json'));print(m['demo_place_at'])")
CMD=$(python3 -c "import json;m=json.load(open('$SD/meta.json'));print(m['demo_cmd'])")
CMD="go test $(echo "$CMD" | sed 's/.*go test//')"
cp $SD/$(basename $DEMO) $WT/$PLACE
with=0
for i in 1 2 3; do if ! (cd $WT && eval "$CMD" >/tmp/cs-$ID.demo 2>&1); then with=$((with+1)); fi; done
git apply -R $SD/patch.diff
# tests that failed alone 6/6 with the change: if they fail just as consistently on the unchanged tree
# right now (machine load), they say nothing about the change
if [ -f /tmp/cs-$ID.stuck ] && [ "${suite#fail:}" != "$suite" ]; then
  allflaky=1
  while read p tname; do
    pok=0
    for i in 1 2 3; do
      if go test -vet=off -count=1 -timeout 25m -run "^$tname\$" $p >/dev/null 2>&1; then pok=1; break; fi
    done
    [ $pok = 1 ] && allflaky=0
  done < /tmp/cs-$ID.stuck
  # only excuse the failure if every package failure was attributed to such tests
  nstuck=$(cut -d' ' -f1 /tmp/cs-$ID.stuck | sort -u | wc -l)
  if [ $allflaky = 1 ] && [ $nstuck -ge 1 ]; then suite="pass-modulo-load:$(cut -d' ' -f2 /tmp/cs-$ID.stuck | sort -u | tr '\n' ',')fail-3/3-on-the-unchanged-tree-too"; fi
fi
without=0
for i in 1 2 3; do if (cd $WT && eval "$CMD" >/tmp/cs-$ID.demo2 2>&1); then without=$((without+1)); fi; done
res $SD/confirm.json applies=true builds=true suite_with_change=$suite demo_fails_with_change=$with/3 demo_passes_without_change=$without/3 base=$(git -C /repo rev-parse --short HEAD)
cat $SD/confirm.json
cd /; git -C /repo worktree remove --force $WT; rm -f /tmp/cs-$ID.*
