#!/bin/bash
# r7.sh <ID> <seed-name> [skipconfirm] : round-7 pipeline for one delivered seed in /tmp/seed7-<ID>:
# remove the agent's worktree, confirm (tools/confirm_seed.sh), adopt into seeded/<name>, run the quick
# check of the property against it in a scratch worktree (tools/seedtest_wt.sh).
ID=$1; NAME=$2
cd /verif
git -C /repo worktree remove --force /tmp/wt7-$ID >/dev/null 2>&1
if [ "$3" != skipconfirm ]; then
  tools/confirm_seed.sh ${ID}r7 /tmp/seed7-$ID > /tmp/confirm7-$ID.log 2>&1
fi
cat /tmp/seed7-$ID/confirm.json
tools/adopt_seed.sh $ID $NAME /tmp/seed7-$ID
tools/seedtest_wt.sh $NAME $ID
