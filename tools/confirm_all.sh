#!/bin/bash
for id in "$@"; do /verif/tools/confirm_seed.sh $id /tmp/seed-$id > /tmp/confirm-$id.log 2>&1; done
