#!/bin/bash
for id in "$@"; do /verif/tools/confirm_seed.sh ${id}r5 /tmp/seed5-$id > /tmp/confirm5-$id.log 2>&1; done
