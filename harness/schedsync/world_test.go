package schedsync

import (
	"bytes"
	"context"
	"errors"
	"fmt"
	"sort"
	gosync "sync"
	"time"

	"github.com/celestiaorg/go-header"
	"github.com/celestiaorg/go-header/store"
	hsync "github.com/celestiaorg/go-header/sync"
	"github.com/celestiaorg/go-header/verifrt/vrt"

	"verif/vk"
)

// WCfg configures the world of one schedule scenario.
type WCfg struct {
	N           int
	S           uint64 // store pre-loaded with c[1..S]
	R           uint64
	HeadAgeS    int  // age of c[S] in seconds (default 5)
	FreshAfterS bool // headers above S are recent
	GetterFail  int  // the n-th range call fails (0 = never)
}

type getter struct {
	mu      gosync.Mutex
	C       vk.Chain
	calls   []string
	heads   int
	ranges  int
	failAt  int
	trusted []*vk.H
	// softForged: answer to head requests that carry a trusted head: this header + a soft VerifyError
	softForged *vk.H
}

var errGetter = errors.New("vk: injected getter error")

func (g *getter) Head(ctx context.Context, opts ...header.HeadOption[*vk.H]) (*vk.H, error) {
	vrt.Point("getter.head", nil)
	var p header.HeadParams[*vk.H]
	for _, o := range opts {
		o(&p)
	}
	g.mu.Lock()
	g.heads++
	g.trusted = append(g.trusted, p.TrustedHead)
	sf := g.softForged
	g.mu.Unlock()
	if sf != nil && p.TrustedHead != nil {
		// what Exchange.Head hands back when the best answer does not verify directly against the trusted head
		return sf, &header.VerifyError{Reason: errors.New("vk: beyond the trust range"), SoftFailure: true}
	}
	return g.C[g.C.N()], nil
}

func (g *getter) Get(ctx context.Context, h header.Hash) (*vk.H, error) {
	vrt.Point("getter.get", nil)
	for _, x := range g.C[1:] {
		if bytes.Equal(x.Hash(), h) {
			return x, nil
		}
	}
	return nil, header.ErrNotFound
}

func (g *getter) GetByHeight(ctx context.Context, h uint64) (*vk.H, error) {
	vrt.Point("getter.getbyheight", nil)
	if x := g.C.At(h); x != nil {
		return x, nil
	}
	return nil, header.ErrNotFound
}

func (g *getter) GetRangeByHeight(ctx context.Context, from *vk.H, to uint64) ([]*vk.H, error) {
	vrt.Point("getter.range", nil)
	g.mu.Lock()
	g.ranges++
	n := g.ranges
	g.calls = append(g.calls, fmt.Sprintf("range(%d,%d)", from.Ht, to))
	g.mu.Unlock()
	if g.failAt != 0 && n == g.failAt {
		return nil, errGetter
	}
	var out []*vk.H
	for h := from.Ht + 1; h < to && h <= g.C.N(); h++ {
		out = append(out, g.C[h])
	}
	if len(out) == 0 {
		return nil, header.ErrNotFound
	}
	return out, nil
}

type capSub struct {
	mu gosync.Mutex
	fn func(context.Context, *vk.H) error
}

func (s *capSub) SetVerifier(f func(context.Context, *vk.H) error) error {
	s.mu.Lock()
	s.fn = f
	s.mu.Unlock()
	return nil
}
func (s *capSub) Subscribe() (header.Subscription[*vk.H], error) { return nil, errors.New("unused") }

// lazyStore decorates the real store: while a drainer thread is attached, Append only queues the
// caller's slice (no copy, exactly like the real store's write queue) and the controlled drainer
// hands it to the real store at a scheduling point of its own. This puts the asynchronous
// consumption of appended slices by the store's flush loop under the explorer's control.
type lazyStore struct {
	*store.Store[*vk.H]
	mu     gosync.Mutex
	q      [][]*vk.H
	wake   chan struct{}
	active bool
}

func (l *lazyStore) Append(ctx context.Context, hs ...*vk.H) error {
	l.mu.Lock()
	if !l.active {
		l.mu.Unlock()
		return l.Store.Append(ctx, hs...)
	}
	l.q = append(l.q, hs)
	l.mu.Unlock()
	select {
	case l.wake <- struct{}{}:
	default:
	}
	return nil
}

// drain is the body of the controlled drainer thread.
func (l *lazyStore) drain() {
	for {
		if _, ok := vrt.Recv2(l.wake); !ok {
			return
		}
		for {
			l.mu.Lock()
			if len(l.q) == 0 {
				l.mu.Unlock()
				break
			}
			hs := l.q[0]
			l.q = l.q[1:]
			l.mu.Unlock()
			vrt.Point("store.apply", nil)
			_ = l.Store.Append(context.Background(), hs...)
		}
	}
}

// flushAll applies everything still queued (free mode, after the run).
func (l *lazyStore) flushAll() {
	l.mu.Lock()
	q := l.q
	l.q = nil
	wasActive := l.active
	l.active = false
	l.mu.Unlock()
	if wasActive {
		close(l.wake) // ends the drainer thread
	}
	for _, hs := range q {
		_ = l.Store.Append(context.Background(), hs...)
	}
}

// World: real uninstrumented store (its flush loop runs at quiescence), instrumented Syncer.
type World struct {
	Cfg WCfg
	C   vk.Chain
	DS  *vk.LogDS
	St  *store.Store[*vk.H]
	LS  *lazyStore
	G   *getter
	Sub *capSub
	Sy  *hsync.Syncer[*vk.H]
}

func NewWorld(cfg WCfg, batch int) (*World, error) {
	now := time.Now()
	age := 5 * time.Second
	if cfg.HeadAgeS != 0 {
		age = time.Duration(cfg.HeadAgeS) * time.Second
	}
	steps := make([]time.Duration, cfg.N)
	for i := range steps {
		steps[i] = time.Second
	}
	if cfg.FreshAfterS && age > 10*time.Second {
		steps[cfg.S-1] = age - 4*time.Second
	}
	start := now.Add(-age).Add(-time.Duration(cfg.S-1) * time.Second)
	c := vk.GenChain(vk.ChainSpec{N: cfg.N, Start: start, Step: time.Second, Steps: steps, R: cfg.R})
	w := &World{Cfg: cfg, C: c, DS: vk.NewLogDS(), Sub: &capSub{}}
	w.G = &getter{C: c, failAt: cfg.GetterFail}
	st, err := store.NewStore[*vk.H](w.DS.Wrap(false), store.WithWriteBatchSize(batch))
	if err != nil {
		return nil, err
	}
	w.St = st
	bg := context.Background()
	if err := st.Start(bg); err != nil {
		return nil, err
	}
	_ = st.Append(bg, c.Slice(1, cfg.S)...)
	vk.Settle()
	_ = st.Sync(bg)
	w.LS = &lazyStore{Store: st, wake: make(chan struct{}, 1)}
	sy, err := hsync.NewSyncer[*vk.H](w.G, w.LS, w.Sub,
		hsync.WithBlockTime(10*time.Second), hsync.WithTrustingPeriod(time.Hour), hsync.WithSyncFromHeight(1))
	if err != nil {
		return nil, err
	}
	w.Sy = sy
	// with a stale stored head Start would ask the network; keep the head as it is by starting
	// only when recent, otherwise the scenario itself performs the first Head() call
	ctx, cancel := context.WithTimeout(bg, time.Minute)
	defer cancel()
	if err := sy.Start(ctx); err != nil {
		return nil, fmt.Errorf("Start: %w", err)
	}
	vk.Settle()
	return w, nil
}

func (w *World) Quiesce() {
	w.LS.flushAll()
	vk.Settle()
	ctx, cancel := context.WithTimeout(context.Background(), time.Minute)
	_ = w.St.Sync(ctx)
	cancel()
	vk.Settle()
}

func (w *World) Close() {
	w.LS.flushAll()
	_ = w.Sy.Stop(context.Background())
	vk.Settle()
	ctx, cancel := context.WithTimeout(context.Background(), time.Minute)
	_ = w.St.Stop(ctx)
	cancel()
	vk.Settle()
}

func (w *World) StoredHeights() []uint64 {
	seen := map[uint64]bool{}
	for _, p := range w.St.VerifPendingHeights() {
		seen[p] = true
	}
	for k := range w.DS.Image() {
		var h uint64
		if n, _ := fmt.Sscanf(k, "/headers/%d", &h); n == 1 && fmt.Sprintf("/headers/%d", h) == k {
			seen[h] = true
		}
	}
	var out []uint64
	for h := range seen {
		out = append(out, h)
	}
	sort.Slice(out, func(i, j int) bool { return out[i] < out[j] })
	return out
}

// delivery result, recorded in completion order
type delivery struct {
	Name  string
	H     *vk.H
	Err   error
	Order int
}

func (e *Env) Deliver(name string, h *vk.H) {
	e.Thread(name, func() {
		e.W.Sub.mu.Lock()
		fn := e.W.Sub.fn
		e.W.Sub.mu.Unlock()
		ctx, cancel := context.WithTimeout(context.Background(), 10*time.Minute)
		defer cancel()
		err := fn(ctx, h)
		e.mu.Lock()
		e.order++
		d := delivery{Name: name, H: h, Err: err, Order: e.order}
		e.mu.Unlock()
		e.Note("deliver:"+name, d)
	})
}

// AsyncStore attaches the controlled drainer: from now on appended slices reach the real store only
// when the explorer schedules the drainer thread.
func (e *Env) AsyncStore() {
	e.W.LS.mu.Lock()
	e.W.LS.active = true
	e.W.LS.mu.Unlock()
	vrt.Go("store-drainer", e.W.LS.drain)
}

// DeliverSeq delivers several headers one after the other from one thread.
func (e *Env) DeliverSeq(thread string, names []string, hs []*vk.H) {
	e.Thread(thread, func() {
		e.W.Sub.mu.Lock()
		fn := e.W.Sub.fn
		e.W.Sub.mu.Unlock()
		for i, h := range hs {
			ctx, cancel := context.WithTimeout(context.Background(), 10*time.Minute)
			err := fn(ctx, h)
			cancel()
			e.mu.Lock()
			e.order++
			d := delivery{Name: names[i], H: h, Err: err, Order: e.order}
			e.mu.Unlock()
			e.Note("deliver:"+names[i], d)
		}
	})
}
