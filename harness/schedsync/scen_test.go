package schedsync

import (
	"context"
	"fmt"
	"os"
	"strings"
	"testing"
	"time"

	"verif/vk"
)

// subjective heads adopted during the run, in call order (traced setLocalHead calls)
func adopted(e *Env) []uint64 {
	var out []uint64
	for _, ev := range e.S.Events {
		if ev.Name == "setLocalHead" && len(ev.Args) > 0 {
			if h, ok := ev.Args[0].(*vk.H); ok && h != nil {
				out = append(out, h.Ht)
			}
		}
	}
	return out
}

// commonCheck: the C03 clauses that must hold after every schedule.
func commonCheck(e *Env, x *Exec, viol func(string, string, ...any)) {
	w := e.W
	// NOTE: "the subjective head only ever moves up" is NOT checked here: on the unchanged tree a header
	// can legitimately be verified against the (older) pending head while the store head is already
	// higher, e.g. adopted [5 6 6]; the statement only asks that what is accepted was verified and
	// that nothing unverified is stored (see DESIGN.md section 5).
	ad := adopted(e)
	for _, v := range e.Notes {
		if d, ok := v.(delivery); ok && d.Err == nil && d.H != nil {
			if string(d.H.Hash()) != string(w.C[d.H.Ht].Hash()) {
				viol("invalid-gossip-accepted", "delivery %s of %v (not a chain header) returned nil", d.Name, d.H)
			}
		}
	}
	// only chain headers stored, one gap-free run
	st := w.StoredHeights()
	head, tail := w.St.VerifPointers()
	if len(st) > 0 && (st[0] != tail || st[len(st)-1] != head || uint64(len(st)) != head-tail+1) {
		viol("store-not-one-run", "stored heights %v, Tail %d Head %d", st, tail, head)
	}
	for _, h := range st {
		ctx, cancel := context.WithTimeout(context.Background(), time.Second)
		got, err := w.St.GetByHeight(ctx, h)
		cancel()
		if err != nil || got == nil || string(got.Hash()) != string(w.C[h].Hash()) {
			viol("foreign-header-stored", "height %d holds %v (%v)", h, got, err)
		}
	}
	// every accepted delivery is synced (C07): store head == highest accepted head, no error
	var top uint64 = w.Cfg.S
	acc := ""
	for k, v := range e.Notes {
		d, ok := v.(delivery)
		if !ok {
			continue
		}
		_ = k
		if d.Err == nil && d.H != nil && d.H.Ht > top {
			top = d.H.Ht
		}
	}
	for _, n := range []string{"A", "B", "C", "D"} {
		if d, ok := e.Notes["deliver:"+n].(delivery); ok {
			acc += fmt.Sprintf("%s:%d=%v ", n, d.H.Ht, d.Err == nil)
		}
	}
	state := w.Sy.State()
	if w.Cfg.GetterFail == 0 {
		if head != top {
			viol("target-not-reached", "highest accepted head %d but store head %d at quiescence (state %+v, pending %v)", top, head, state, w.Sy.VerifPendingRanges())
		}
		if state.Error != "" {
			viol("unexpected-sync-error", "State().Error = %q", state.Error)
		}
	}
	x.Outcome = fmt.Sprintf("%sadopted=%v head=%d", acc, ad, head)
}

func c03Scenarios(batch int) []Scenario {
	cfg := WCfg{N: 10, S: 3}
	var out []Scenario
	out = append(out, Scenario{Name: "SS1-target-vs-duplicate-and-stale", Batch: batch, Cfg: cfg,
		Build: func(e *Env) {
			e.Deliver("A", e.W.C[6])
			e.Deliver("B", e.W.C[6])
			e.Deliver("C", e.W.C[5])
		},
		Check: commonCheck})
	out = append(out, Scenario{Name: "SS2-three-heads-any-order", Batch: batch, Cfg: cfg,
		Build: func(e *Env) {
			e.Deliver("A", e.W.C[5])
			e.Deliver("B", e.W.C[4])
			e.Deliver("C", e.W.C[7])
		},
		Check: commonCheck})
	// SS4: two pending ranges and a head appended to the last one while the sync loop hands the first
	// one to an asynchronous store
	out = append(out, Scenario{Name: "SS4-two-ranges-async-store", Batch: batch, Cfg: WCfg{N: 12, S: 3},
		Build: func(e *Env) {
			e.AsyncStore()
			e.Deliver("A", e.W.C[6])
			e.Deliver("B", e.W.C[8])
			e.Deliver("C", e.W.C[9])
		},
		Check: commonCheck})
	// SS5: two overlapping Head() callers on a stale subjective head share one request, which the trusted peers
	// answer with a forged far header and a soft failure: both must bifurcate (or fail), neither may adopt it
	out = append(out, Scenario{Name: "SS5-two-head-callers-soft-forged-answer", Batch: batch, Cfg: WCfg{N: 8, S: 3, R: 2, HeadAgeS: 100, FreshAfterS: true},
		Setup: func(e *Env) {
			// Start has synced to the tip; let it age beyond the recency threshold (3 x blockTime = 30s),
			// so that Head() goes to the trusted peers with the subjective head as trusted head
			time.Sleep(45 * time.Second)
		},
		Build: func(e *Env) {
			evil := e.W.C.Fork(3, 14, "evil", 9)
			e.W.G.mu.Lock()
			e.W.G.softForged = evil[13]
			e.W.G.mu.Unlock()
			e.Note("heads0", e.W.G.heads)
			for _, n := range []string{"H1", "H2"} {
				n := n
				e.Thread(n, func() {
					ctx, cancel := context.WithTimeout(context.Background(), 10*time.Minute)
					defer cancel()
					h, err := e.W.Sy.Head(ctx)
					e.Note("head:"+n, headRes{h, err, 0})
				})
			}
		},
		Check: func(e *Env, x *Exec, viol func(string, string, ...any)) {
			w := e.W
			out := fmt.Sprintf("reqs=%d ", w.G.heads-e.Notes["heads0"].(int))
			for _, n := range []string{"H1", "H2"} {
				r, _ := e.Notes["head:"+n].(headRes)
				if r.Err == nil && r.H != nil && (r.H.Ht > uint64(w.Cfg.N) || string(r.H.Hash()) != string(w.C[r.H.Ht].Hash())) {
					viol("forged-head-returned", "%s: Head() returned %v (err %v), which is not a header of the chain", n, r.H, r.Err)
				}
				if r.H != nil {
					out += fmt.Sprintf("%s=%d/%v ", n, r.H.Ht, r.Err != nil)
				} else {
					out += fmt.Sprintf("%s=nil/%v ", n, r.Err != nil)
				}
			}
			for _, h := range w.StoredHeights() {
				ctx, cancel := context.WithTimeout(context.Background(), time.Second)
				got, err := w.St.GetByHeight(ctx, h)
				cancel()
				if err != nil || got == nil || h > uint64(w.Cfg.N) || string(got.Hash()) != string(w.C[h].Hash()) {
					viol("foreign-header-stored", "height %d holds %v (%v)", h, got, err)
				}
			}
			chain := map[string]bool{}
			for _, h := range w.C[1:] {
				chain[h.Hash().String()] = true
			}
			for _, p := range w.Sy.VerifPendingHashes() {
				if !chain[p] {
					viol("unverified-header-promoted", "pending set holds %s, which is not a header of the chain", p)
				}
			}
			x.Outcome = out
		}})
	if thoroughTier {
		out = append(out, Scenario{Name: "SS3-forged-vs-target", Batch: batch, Cfg: WCfg{N: 10, S: 3, R: 2},
			Build: func(e *Env) {
				e.Deliver("A", e.W.C[5])
				evil := e.W.C.Fork(3, 8, "evil", 9)
				e.Deliver("B", evil[6])
				e.Deliver("C", e.W.C[6])
			},
			Check: func(e *Env, x *Exec, viol func(string, string, ...any)) {
				if d, ok := e.Notes["deliver:B"].(delivery); ok && d.Err == nil {
					viol("invalid-gossip-accepted", "forged header at height 6 was accepted")
				}
				commonCheck(e, x, viol)
			}})
	}
	return out
}

func c07Scenarios(batch int) []Scenario {
	var out []Scenario
	out = append(out, Scenario{Name: "SL1-burst-during-sync", Batch: batch, Cfg: WCfg{N: 12, S: 3},
		Build: func(e *Env) {
			e.AsyncStore()
			e.Deliver("A", e.W.C[6])
			e.Deliver("B", e.W.C[7])
			e.Deliver("C", e.W.C[9])
		},
		Check: commonCheck})
	out = append(out, Scenario{Name: "SL3-adjacent-heads-growing-one-pending-range", Batch: batch, Cfg: WCfg{N: 12, S: 3},
		Build: func(e *Env) {
			e.AsyncStore()
			e.DeliverSeq("ABC", []string{"A", "B", "C"}, []*vk.H{e.W.C[6], e.W.C[7], e.W.C[8]})
			e.Deliver("D", e.W.C[9])
		},
		Check: commonCheck})
	out = append(out, Scenario{Name: "SL2-getter-error-then-next-head", Batch: batch, Cfg: WCfg{N: 12, S: 3, GetterFail: 1},
		Build: func(e *Env) {
			e.Deliver("A", e.W.C[6])
			e.Deliver("B", e.W.C[8])
		},
		Check: func(e *Env, x *Exec, viol func(string, string, ...any)) {
			commonCheck(e, x, viol)
			// after the run one more valid head must complete the sync (errors only delay)
			w := e.W
			top := w.C[10]
			w.Sub.mu.Lock()
			fn := w.Sub.fn
			w.Sub.mu.Unlock()
			ctx, cancel := context.WithTimeout(context.Background(), time.Minute)
			err := fn(ctx, top)
			cancel()
			w.Quiesce()
			head, _ := w.St.VerifPointers()
			if err != nil || head != 10 || w.Sy.State().Error != "" {
				viol("no-recovery-after-next-head", "after a getter error and one more valid head (10): deliver err=%v, store head %d, state %+v", err, head, w.Sy.State())
			}
		}})
	return out
}

func c19Scenarios(batch int) []Scenario {
	var out []Scenario
	out = append(out, Scenario{Name: "SH1-concurrent-head-callers-stale", Batch: batch, Cfg: WCfg{N: 8, S: 3, HeadAgeS: 100, FreshAfterS: true},
		Build: func(e *Env) {
			e.Note("heads0", e.W.G.heads)
			for _, n := range []string{"H1", "H2", "H3"} {
				n := n
				e.Thread(n, func() {
					ctx, cancel := context.WithTimeout(context.Background(), 10*time.Minute)
					defer cancel()
					h, err := e.W.Sy.Head(ctx)
					e.mu.Lock()
					e.order++
					o := e.order
					e.mu.Unlock()
					e.Note("head:"+n, headRes{h, err, o})
				})
			}
		},
		Check: func(e *Env, x *Exec, viol func(string, string, ...any)) {
			w := e.W
			// Start already made one request for the stale stored head; count the ones of this run
			reqs := w.G.heads - e.Notes["heads0"].(int)
			var rs []headRes
			for _, n := range []string{"H1", "H2", "H3"} {
				r, _ := e.Notes["head:"+n].(headRes)
				rs = append(rs, r)
				if r.Err != nil || r.H == nil {
					viol("head-fails", "%s: Head() = %v, %v", n, r.H, r.Err)
				}
			}
			// results in completion order never decrease
			for i := range rs {
				for j := range rs {
					if rs[i].H != nil && rs[j].H != nil && rs[i].Order < rs[j].Order && rs[i].H.Ht > rs[j].H.Ht {
						viol("head-height-decreased", "Head() returned %d and a later completed call returned %d", rs[i].H.Ht, rs[j].H.Ht)
					}
				}
			}
			if reqs > 1 {
				viol("not-single-flight", "%d head requests were sent to the trusted peers by 3 concurrent Head() callers with one stale subjective head (the first answer makes it recent)", reqs)
			}
			for _, tr := range w.G.trusted[e.Notes["heads0"].(int):] {
				if tr == nil || tr.Ht != w.Cfg.S {
					viol("stale-head-request-not-verified-against-subjective", "head request carried trusted head %v", tr)
				}
			}
			x.Outcome = fmt.Sprintf("reqs=%d heads=%v", reqs, func() []uint64 {
				var o []uint64
				for _, r := range rs {
					if r.H != nil {
						o = append(o, r.H.Ht)
					}
				}
				return o
			}())
			commonCheck2(e, viol)
		}})
	return out
}

type headRes struct {
	H     *vk.H
	Err   error
	Order int
}

func commonCheck2(e *Env, viol func(string, string, ...any)) {
	ad := adopted(e)
	for i := 1; i < len(ad); i++ {
		if ad[i] < ad[i-1] {
			viol("subjective-head-regressed", "headers adopted as subjective head by Head() callers, in order: %v", ad)
			break
		}
	}
}

var thoroughTier bool

func runProp(t *testing.T, id string, scenarios func(batch int) []Scenario, rule string) {
	curPropID = id
	run := vk.NewRun(id, "model_checking")
	defer run.Finish()
	thoroughTier = run.Thorough()
	run.SetRule(rule)
	run.Assume("scheduling points: every sync/atomic/channel/select/go operation of the sync package (instrumented copy generated from the working tree) and every getter call; the store is the real uninstrumented one, its flush loop runs to quiescence between scheduling decisions")

	var rc schedCase
	if is, err := vk.ReplayCase(&rc); is {
		if err != nil {
			t.Fatal(err)
		}
		for _, sc := range scenarios(rc.Batch) {
			if sc.Name == rc.Scenario {
				x, log := execute(t, run, sc, rc.Schedule, true)
				classify(run, sc, x, rc.Schedule)
				for _, l := range log {
					fmt.Println("  ", l)
				}
				fmt.Printf("replayed %s batch %d schedule %v: outcome=%s idle=%d steps=%d violations=%d\n", sc.Name, rc.Batch, rc.Schedule, x.Outcome, x.Idle, x.Steps, run.Violations())
			}
		}
		return
	}
	// schedules beyond the quick bound that once exposed a defect (F23): executed directly; if the
	// instrumented code has drifted so that the prefix no longer fits, the run is simply not counted
	for _, rs := range regressionSchedules[id] {
		for _, sc := range scenarios(rs.Batch) {
			if sc.Name == rs.Scenario {
				if sh, _ := shardEnv(); sh != 0 {
					continue
				}
				run.Inflight(0, rs)
				x, _ := execute(t, run, sc, rs.Schedule, false)
				if !x.Diverged {
					classify(run, sc, x, rs.Schedule)
					run.AddEval(1)
				}
			}
		}
	}
	claimed := vk.Pick(run, 1, 2)
	run.Set("preemption_bound_claimed", claimed)
	batches := []int{1, 3}
	if f := os.Getenv("VERIF_SCENARIO"); f != "" {
		// development aid: only the scenarios whose name contains f (such a run never claims exhaustiveness)
		all := scenarios
		scenarios = func(b int) []Scenario {
			var out []Scenario
			for _, sc := range all(b) {
				if strings.Contains(sc.Name, f) {
					out = append(out, sc)
				}
			}
			return out
		}
		run.NotExhaustive("VERIF_SCENARIO filter " + f)
	}
	nslots := len(batches) * len(scenarios(1))
	slot := vk.Pick(run, 6*time.Minute, 30*time.Minute) / time.Duration(nslots)
	var total int64
	per := map[string]any{}
	for _, b := range batches {
		for _, sc := range scenarios(b) {
			info := map[string]any{}
			for bound := claimed; bound <= claimed+1; bound++ {
				dl := vk.NewDeadline(slot)
				if bound > claimed {
					dl = vk.NewDeadline(vk.Pick(run, 10*time.Second, slot))
				}
				st := explore(t, run, sc, bound, dl)
				total += st.Execs
				run.AddEval(st.Execs)
				run.AddTransitions(st.Points)
				info[fmt.Sprintf("bound%d", bound)] = map[string]any{"executions": st.Execs, "scheduling_decisions": st.Points, "longest_schedule": st.MaxLen, "distinct_outcomes": len(st.Outcomes), "capped": st.Capped}
				for o := range st.Outcomes {
					run.Distinct(fmt.Sprintf("%s/b%d/%s", sc.Name, b, o))
				}
				if st.Capped {
					if bound == claimed {
						run.NotExhaustive(fmt.Sprintf("time slot exhausted in %s batch %d at the claimed bound %d", sc.Name, b, bound))
					}
					break
				}
			}
			per[fmt.Sprintf("%s/batch%d", sc.Name, b)] = info
			x1, _ := execute(t, run, sc, nil, false)
			x2, _ := execute(t, run, sc, nil, false)
			if len(x1.Trace) != len(x2.Trace) || x1.Outcome != x2.Outcome {
				run.HarnessError("replay of the default schedule of %s batch %d is not deterministic (%d vs %d decisions, %q vs %q)", sc.Name, b, len(x1.Trace), len(x2.Trace), x1.Outcome, x2.Outcome)
			}
			run.AddValidated(1)
			run.Sample(map[string]any{"scenario": sc.Name, "batch": b, "default_schedule_decisions": len(x1.Trace), "outcome": x1.Outcome})
		}
	}
	run.AddStates(total)
	run.Set("per_scenario", per)
	_ = os.Getenv
}

var regressionSchedules = map[string][]schedCase{
	"C07": {
		{Scenario: "SL3-adjacent-heads-growing-one-pending-range", Batch: 1, Schedule: []int{0, 0, 0, 0, 0, 0, 0, 0, 0, 0, 0, 0, 0, 0, 0, 0, 0, 0, 0, 0, 1, 0, 0, 0, 0, 0, 0, 0, 0, 0, 0, 0, 0, 0, 0, 0, 0, 0, 0, 0, 0, 0, 0, 0, 0, 0, 0, 0, 0, 0, 0, 0, 0, 0, 0, 0, 0, 0, 0, 0, 0, 0, 0, 0, 0, 1, 0, 0, 0, 0, 0, 0, 0, 0, 0, 1}},
	},
}

func TestC03(t *testing.T) {
	runProp(t, "C03", c03Scenarios, "schedule part: stateless DFS with preemption bounding over the interleavings of the gossip handler threads with the sync loop on the instrumented sync package: target vs duplicate vs stale delivery; three heads in any order; (thorough) forged vs honest target; oracle per execution: subjective head only moves up (traced setLocalHead calls), only chain headers stored in one run, every accepted head synced")
}

func TestC07(t *testing.T) {
	runProp(t, "C07", c07Scenarios, "schedule part: stateless DFS with preemption bounding over the interleavings of head deliveries with the sync loop and getter calls: burst of heads during a running sync (gap in pending), getter error then next head; oracle: store head reaches the highest accepted head, no error left, recovery after one more head")
}

func TestC19(t *testing.T) {
	runProp(t, "C19", c19Scenarios, "schedule part: stateless DFS with preemption bounding over three concurrent Head() callers on a stale subjective head: exactly one head request carrying the subjective head, results never decrease in completion order, subjective head only moves up")
}
