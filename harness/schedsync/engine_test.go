package schedsync

import (
	"fmt"
	"os"
	"strings"
	"sync"
	"sync/atomic"
	"testing"
	"time"

	"github.com/celestiaorg/go-header/verifrt/vrt"

	"verif/vk"
)

// Env is what a scenario sees during one controlled execution.
type Env struct {
	W       *World
	S       *vrt.Sched
	threads []*thr
	mu      sync.Mutex
	Notes   map[string]any
	order   int
}

type thr struct {
	name string
	done atomic.Bool
	pan  string
}

// Thread starts f as a controlled scenario thread (parked until the scheduler runs it).
func (e *Env) Thread(name string, f func()) {
	th := &thr{name: name}
	e.threads = append(e.threads, th)
	vrt.Go(name, func() {
		defer func() {
			if r := recover(); r != nil {
				th.pan = fmt.Sprint(r)
			}
			th.done.Store(true)
		}()
		f()
	})
}

func (e *Env) Note(k string, v any) {
	e.mu.Lock()
	e.Notes[k] = v
	e.mu.Unlock()
}

func (e *Env) Get(k string) any {
	e.mu.Lock()
	defer e.mu.Unlock()
	return e.Notes[k]
}

// Scenario is one concurrent program over the real (instrumented) sync package.
type Scenario struct {
	Name  string
	Batch int // store batch size
	Cfg   WCfg
	// Setup runs in free mode after Start has settled (e.g. letting virtual time pass)
	Setup func(e *Env)
	Build func(e *Env)
	// Check is the per-execution oracle (free mode, after the run).
	Check func(e *Env, x *Exec, viol func(clause, format string, a ...any))
}

// Exec is the result of one controlled execution.
type Exec struct {
	Trace     []vrt.Choice
	Deadlock  bool
	Livelock  bool
	Idle      int
	Steps     int
	Diverged  bool
	Blocked   []string
	Panic     string
	BubbleErr string
	Outcome   string
}

// execute runs the scenario once under the schedule given by prefix (then default choices).
func execute(t *testing.T, run *vk.Run, sc Scenario, prefix []int, logOn bool) (x *Exec, log []string) {
	x = &Exec{}
	br := vk.Bubble(t, func() {
		pos := 0
		decide := func(n int, runFirst, sel bool, desc string) int {
			k := 0
			if pos < len(prefix) {
				k = prefix[pos]
			}
			pos++
			if k >= n {
				x.Diverged = true
				k = 0
			}
			return k
		}
		s := vrt.New(decide)
		s.LogOn = logOn
		s.Horizon = time.Hour
		s.Attach()
		defer s.Detach()
		w, err := NewWorld(sc.Cfg, sc.Batch)
		if err != nil {
			x.BubbleErr = err.Error()
			return
		}
		defer w.Close()
		e := &Env{W: w, S: s, Notes: map[string]any{}}
		vk.Settle()
		if sc.Setup != nil {
			sc.Setup(e)
			vk.Settle()
		}
		s.Activate()
		sc.Build(e)
		s.SetDone(func(noneEnabled bool) bool {
			for _, th := range e.threads {
				if !th.done.Load() {
					return false
				}
			}
			// the scenario threads are done; the run ends once the sync loop has nothing left to do
			return noneEnabled
		})
		s.Run()
		x.Trace = append([]vrt.Choice(nil), s.Trace...)
		x.Deadlock, x.Livelock, x.Idle, x.Steps = s.Deadlock, s.Livelock, s.Idle, s.Steps
		if s.Deadlock || s.Livelock {
			x.Blocked = s.Blocked()
		}
		for _, th := range e.threads {
			if th.pan != "" {
				x.Panic = th.name + ": " + th.pan
			}
		}
		log = s.Log()
		vk.Settle()
		if !x.Deadlock && !x.Livelock {
			w.Quiesce()
			scCheck(sc, e, x, run, prefix)
		}
	})
	if br.Panic != "" {
		x.BubbleErr = br.Panic + "\n" + br.Stack
	}
	if br.Deadlock && x.BubbleErr == "" && !x.Deadlock {
		x.BubbleErr = "goroutines left blocked at the end of the bubble"
	}
	return x, log
}

type schedCase struct {
	Scenario string `json:"scenario"`
	Batch    int    `json:"batch"`
	Schedule []int  `json:"schedule"`
}

var curPropID = "C03"

func scCheck(sc Scenario, e *Env, x *Exec, run *vk.Run, prefix []int) {
	viol := func(clause, format string, a ...any) {
		run.Violate(fmt.Sprintf("%s/%s/%s,batch=%d", curPropID, clause, sc.Name, sc.Batch), schedCase{sc.Name, sc.Batch, takenOf(x.Trace)},
			"scenario %s (batch %d), schedule %v: %s", sc.Name, sc.Batch, takenOf(x.Trace), fmt.Sprintf(format, a...))
	}
	sc.Check(e, x, viol)
}

func takenOf(tr []vrt.Choice) []int {
	out := make([]int, len(tr))
	for i, c := range tr {
		out[i] = c.Taken
	}
	// trailing zeros are the default and can be dropped
	for len(out) > 0 && out[len(out)-1] == 0 {
		out = out[:len(out)-1]
	}
	return out
}

func cost(c vrt.Choice, alt int) int {
	if alt == 0 {
		return 0
	}
	if c.Select || c.RunFirst {
		return 1
	}
	return 0
}

// Stats of one scenario exploration.
type Stats struct {
	Execs    int64
	Points   int64
	Outcomes map[string]int
	Capped   bool
	MaxLen   int
}

// shardEnv parses VERIF_SHARD=i/k (default 0/1).
func shardEnv() (int, int) {
	i, k := 0, 1
	if v := os.Getenv("VERIF_SHARD"); v != "" {
		fmt.Sscanf(v, "%d/%d", &i, &k)
		if k < 1 {
			i, k = 0, 1
		}
	}
	return i, k
}

// explore enumerates every schedule of the scenario with at most `bound` preemptions
// (a preemption = switching away from a thread that could continue, or preferring a select
// clause other than the first one), depth-first over choice prefixes.
//
// Work is split between worker processes (VERIF_SHARD=i/k): every worker first expands the
// schedule tree breadth-first, deterministically, until it has at least seedTarget pending
// prefixes; worker i then explores the subtrees of the prefixes number j with j%k == i.
// The seeding executions are counted by worker 0 only.
func explore(t *testing.T, run *vk.Run, sc Scenario, bound int, dl *vk.Deadline) Stats {
	st := Stats{Outcomes: map[string]int{}}
	shard, nshards := shardEnv()
	expand := func(prefix []int, x *Exec) [][]int {
		var out [][]int
		used := 0
		for i, c := range x.Trace {
			if i < len(prefix) {
				used += cost(c, c.Taken)
				continue
			}
			for alt := 1; alt < c.N; alt++ {
				if used+cost(c, alt) > bound {
					continue
				}
				np := make([]int, i+1)
				for j := 0; j < i; j++ {
					np[j] = x.Trace[j].Taken
				}
				np[i] = alt
				out = append(out, np)
			}
			used += cost(c, c.Taken)
		}
		return out
	}
	one := func(prefix []int, count bool) [][]int {
		run.Inflight(shard, schedCase{sc.Name, sc.Batch, prefix})
		x, _ := execute(t, run, sc, prefix, false)
		if count {
			classify(run, sc, x, prefix)
			st.Execs++
			st.Points += int64(len(x.Trace))
			if len(x.Trace) > st.MaxLen {
				st.MaxLen = len(x.Trace)
			}
			st.Outcomes[x.Outcome]++
		}
		return expand(prefix, x)
	}
	// phase 1: deterministic breadth-first seeding
	seedTarget := 96 * nshards
	queue := [][]int{nil}
	for len(queue) > 0 && (nshards == 1 || len(queue) < seedTarget) {
		if nshards == 1 {
			break
		}
		p := queue[0]
		queue = queue[1:]
		queue = append(queue, one(p, shard == 0)...)
		if dl != nil && dl.Hit() {
			st.Capped = true
			return st
		}
	}
	// phase 2: depth-first over this worker's subtrees
	var stack [][]int
	for j := len(queue) - 1; j >= 0; j-- {
		if j%nshards == shard {
			stack = append(stack, queue[j])
		}
	}
	for len(stack) > 0 {
		if dl != nil && dl.Hit() {
			st.Capped = true
			break
		}
		p := stack[len(stack)-1]
		stack = stack[:len(stack)-1]
		stack = append(stack, one(p, true)...)
	}
	return st
}

// classify turns execution-level failures (deadlock, panic, divergence) into violations / harness errors.
func classify(run *vk.Run, sc Scenario, x *Exec, prefix []int) {
	c := schedCase{sc.Name, sc.Batch, takenOf(x.Trace)}
	feat := fmt.Sprintf("%s,batch=%d", sc.Name, sc.Batch)
	switch {
	case x.Diverged:
		run.HarnessError("schedule replay diverged in %s for prefix %v", feat, prefix)
	case x.BubbleErr != "":
		run.Violate(curPropID+"/panic-or-leak/"+feat, c, "scenario %s schedule %v: %s", sc.Name, c.Schedule, x.BubbleErr)
	case x.Panic != "":
		run.Violate(curPropID+"/panic/"+feat, c, "scenario %s schedule %v: thread panicked: %s", sc.Name, c.Schedule, x.Panic)
	case x.Deadlock:
		run.Violate(curPropID+"/deadlock/"+feat, c, "scenario %s schedule %v: no thread can run and time does not help; blocked: %v", sc.Name, c.Schedule, x.Blocked)
	case x.Livelock:
		run.Violate(curPropID+"/livelock/"+feat, c, "scenario %s schedule %v: step limit exceeded; threads: %v", sc.Name, c.Schedule, x.Blocked)
	}
	if x.Outcome == "" {
		x.Outcome = "?"
	}
}

func shardOf(t *testing.T) int {
	name := t.Name()
	i := strings.LastIndex(name, "/s")
	if i < 0 {
		return 0
	}
	n := 0
	fmt.Sscanf(name[i+2:], "%d", &n)
	return n
}
