package syncx

import (
	"context"
	"fmt"
	"strings"
	"testing"
	"time"

	"verif/vk"
)

// enabledEvents lists the event alphabet in a state (simplest first).
type evAlpha struct {
	Invalid bool // forged / wrong-chain / future / stale / zero deliveries
	Skips   []int
	Head    bool
	Advance []int
	Errors  bool // getter error answers
	Prefix  bool // getter prefix answers
	// SoftHead: a held trusted-head request may be answered with a soft-failing header (honest tip or
	// the attacker's header 2 above the trusted head), as the Exchange does for unverifiable heads
	SoftHead bool
	NoSkips  bool
	// LagHead: a held trusted-head request may be answered with the header gossip has already
	// delivered (the current top) or the one right above the trusted head
	LagHead bool
	// DupStale: duplicate / stale deliveries only (a small part of Invalid)
	DupStale bool
	// NoFetchErrors: error answers are not given to bifurcation fetches (getbyheight): a refused
	// head after a failed fetch is correct behaviour (C15), which a liveness oracle must not flag
	NoFetchErrors bool
}

func enabledEvents(w *SWorld, a evAlpha) []Ev {
	var evs []Ev
	if o := w.G.Oldest(); o != nil {
		switch o.Kind {
		case "range":
			evs = append(evs, Ev{K: "answer", A: "full"})
			if a.Prefix {
				evs = append(evs, Ev{K: "answer", A: "prefix", D: 1})
			}
		case "head":
			evs = append(evs, Ev{K: "answer", A: "tip"})
			if a.LagHead && o.Trusted != nil {
				if t := w.top(); t > o.Trusted.Ht {
					evs = append(evs, Ev{K: "answer", A: "height", D: int(t)})
				}
				if t := o.Trusted.Ht + 1; t != w.top() && int(t) <= w.Cfg.N {
					evs = append(evs, Ev{K: "answer", A: "height", D: int(t)})
				}
			}
			if a.SoftHead && o.Trusted != nil {
				evs = append(evs, Ev{K: "answer", A: "soft-forged", D: 2}, Ev{K: "answer", A: "soft", D: w.Cfg.N})
			}
		default:
			evs = append(evs, Ev{K: "answer", A: "honest"})
		}
		if a.Errors && !(a.NoFetchErrors && o.Kind == "getbyheight") {
			evs = append(evs, Ev{K: "answer", A: "error"})
		}
	}
	// A delivery that is parked inside bifurcation (held getter call) keeps the Syncer's incoming
	// mutex; a second delivery would block on that sync.Mutex, which synctest does not treat as a
	// durable block (the bubble would never become quiescent). The mutex serialises them anyway, so
	// such events are only enabled once the parked delivery has finished.
	if o := w.G.Oldest(); o != nil && o.Kind == "getbyheight" {
		for _, d := range a.Advance {
			evs = append(evs, Ev{K: "advance", D: d})
		}
		return evs
	}
	evs = append(evs, Ev{K: "deliver", A: "next"})
	for _, d := range a.Skips {
		evs = append(evs, Ev{K: "deliver", A: "skip", D: d})
	}
	if a.Invalid {
		evs = append(evs, Ev{K: "deliver", A: "dup"}, Ev{K: "deliver", A: "stale"}, Ev{K: "deliver", A: "forged-adj"},
			Ev{K: "deliver", A: "forged-far", D: 4}, Ev{K: "deliver", A: "badlink"}, Ev{K: "deliver", A: "wrongchain"},
			Ev{K: "deliver", A: "future"})
	}
	if a.DupStale && !a.Invalid {
		evs = append(evs, Ev{K: "deliver", A: "dup"}, Ev{K: "deliver", A: "stale"})
	}
	if a.Head {
		pendingHead := false
		for _, c := range w.Calls {
			if c.Kind == "headcall" && !c.call.Done() {
				pendingHead = true
			}
		}
		// with soft head answers a Head() caller can sit in bifurcation holding the Syncer's incoming
		// mutex; a second caller sharing its request would then block on that sync.Mutex (invisible to
		// synctest, see above), so only one Head() call is outstanding at a time in that pass
		if !a.SoftHead || !pendingHead {
			evs = append(evs, Ev{K: "headcall"})
		}
	}
	for _, d := range a.Advance {
		evs = append(evs, Ev{K: "advance", D: d})
	}
	return evs
}

func histKinds(hist []Ev) string {
	m := map[string]bool{}
	for _, e := range hist {
		k := e.K
		if e.K == "deliver" || e.K == "answer" {
			k = e.K + ":" + e.A
		}
		m[k] = true
	}
	var ks []string
	for _, k := range []string{"deliver:skip", "deliver:forged-adj", "deliver:forged-far", "deliver:badlink", "deliver:wrongchain", "deliver:future",
		"deliver:dup", "deliver:stale", "deliver:zero", "answer:error", "answer:prefix", "headcall", "advance"} {
		if m[k] {
			ks = append(ks, strings.TrimPrefix(k, "deliver:"))
		}
	}
	return strings.Join(ks, "+")
}

// c03Oracle checks the C03 clauses in the current state.
func c03Oracle(run *vk.Run, id string, w *SWorld, cfg SCfg, hist []Ev) {
	feat := cfgFeat(cfg) + ",with=" + histKinds(hist)
	viol := func(clause, format string, a ...any) {
		run.Violate(id+"/"+clause+"/"+feat, sCase{cfg, hist}, "after [%s] on %v: %s", evString(hist), cfg, fmt.Sprintf(format, a...))
	}
	honestHash := map[string]uint64{}
	for _, h := range w.C[1:] {
		honestHash[h.Hash().String()] = h.Ht
	}
	// (1) every stored header is the honest chain's header of that height
	stored := w.StoredHeights()
	for _, h := range stored {
		ctx, cancel := context.WithTimeout(context.Background(), time.Second)
		got, err := w.St.GetByHeight(ctx, h)
		cancel()
		if err != nil {
			viol("stored-height-unreadable", "height %d is in the datastore/pending but GetByHeight fails: %v", h, err)
			continue
		}
		if want := w.C.At(h); want == nil || string(got.Hash()) != string(want.Hash()) {
			viol("foreign-header-stored", "height %d holds %s (sig %s, chain %s), not the verified chain's header", h, got, got.Sig, got.Chain)
		}
	}
	for k := range w.DS.Image() {
		name := strings.TrimPrefix(k, "/headers/")
		if name == "head" || name == "tail" || strings.Trim(name, "0123456789") == "" {
			continue
		}
		if _, ok := honestHash[name]; !ok {
			viol("foreign-header-stored", "datastore holds a header blob %s that is not a header of the verified chain", name[:12])
		}
	}
	// (2) one gap-free run Tail..Head
	head, tail := w.St.VerifPointers()
	if len(stored) > 0 {
		if stored[0] != tail || stored[len(stored)-1] != head || uint64(len(stored)) != head-tail+1 {
			viol("store-not-one-run", "stored heights %v but Tail %d Head %d", stored, tail, head)
		}
	}
	// (3) invalid deliveries are refused with an error, (4) and never become target / pending
	st := w.Sy.State()
	pend := map[string]bool{}
	for _, p := range w.Sy.VerifPendingHashes() {
		pend[p] = true
		if _, ok := honestHash[p]; !ok {
			viol("unverified-header-pending", "the pending set holds a header %s that is not of the verified chain", p[:12])
		}
	}
	for _, c := range w.Calls {
		if c.Kind != "deliver" || c.Honest {
			continue
		}
		if c.call.Done() && c.call.Err == nil && c.call.Panic == "" {
			viol("invalid-gossip-accepted", "deliver(%s) of %v returned nil", c.A, c.H)
		}
		if c.H != nil {
			hs := c.H.Hash().String()
			if _, honest := honestHash[hs]; !honest {
				if st.ToHash.String() == hs {
					viol("invalid-gossip-became-target", "State().ToHash is the refused header %v", c.H)
				}
			}
		}
	}
	for _, c := range w.Calls {
		if c.call.Done() && c.call.Panic != "" {
			viol("panic", "%s(%s) panicked: %s", c.Kind, c.A, c.call.Panic)
		}
	}
	// getter range requests must start from verified headers
	w.G.mu.Lock()
	for _, l := range w.G.Log {
		if l.Kind == "range" && l.From != nil {
			if _, ok := honestHash[l.From.Hash().String()]; !ok {
				viol("range-requested-from-unverified-header", "getter asked for a range from %v", l.From)
			}
		}
	}
	w.G.mu.Unlock()
}

func c03Configs(run *vk.Run) []SCfg {
	cfgs := []SCfg{
		{N: 12, S: 3, R: 0, Batch: 1, Hold: true},
		{N: 12, S: 3, R: 2, Batch: 1, Hold: true},
		{N: 12, S: 3, R: 2, Batch: 3, Hold: false},
	}
	if run.Thorough() {
		cfgs = append(cfgs, SCfg{N: 14, S: 4, R: 1, Batch: 3, Hold: true}, SCfg{N: 12, S: 3, R: 0, Batch: 3, Hold: false})
	}
	return cfgs
}

func exploreSync(t *testing.T, run *vk.Run, id string, cfg SCfg, depth int, a evAlpha, dl *vk.Deadline, oracle func(w *SWorld, hist []Ev)) vk.BFSResult[Ev] {
	return vk.BFS(t, depth, vk.NumShards(), dl, func(t *testing.T, shard int, hist []Ev) vk.Step[Ev] {
		var step vk.Step[Ev]
		run.AddEval(1)
		runEvents(t, run, id, cfg, hist, func(w *SWorld, applied bool) {
			if w.StartPanic != "" || w.StartErr != nil {
				run.Violate(id+"/start-fails/"+cfgFeat(cfg), sCase{cfg, hist}, "Syncer.Start on %v: err=%v panic=%s", cfg, w.StartErr, w.StartPanic)
				return
			}
			if !applied {
				return
			}
			step.Key = w.StateKey()
			step.Next = enabledEvents(w, a)
			oracle(w, hist)
		})
		if step.Key == "" {
			step.Skip = true
		}
		return step
	})
}

func TestC03(t *testing.T) {
	run := vk.NewRun("C03", "model_checking")
	defer run.Finish()
	run.SetRule("breadth-first exploration of event histories on the real Syncer + real Store (scripted contract-abiding getter whose calls are held until an answer event, capturing subscriber): events = deliver {next, skip 2/3, duplicate, stale, forged adjacent, forged far (bifurcation), bad link, wrong chain, future, zero} | Head() call | answer of the oldest held getter call {full, prefix, error; trusted-head request in the lagging-peers pass: tip, the header gossip already delivered, the one above the trusted head, soft+honest tip, soft+forged header 2 above the trusted head; plus duplicate and stale deliveries} | clock advance {40s (stale), 2h (expired)}; states deduplicated on (stored heights, pointers, pending ranges, sync state, held calls, spawned call status, clock); oracle in every state")
	run.Assume("interleavings are explored at event granularity: between two events the bubble runs to quiescence; finer-grained interleavings of the gossip handler with the sync loop are the schedule explorer's part")
	run.Assume("attacker has no validator keys (forged headers carry a foreign signature); getter serves only the honest chain")

	var rc sCase
	if is, err := vk.ReplayCase(&rc); is {
		if err != nil {
			t.Fatal(err)
		}
		runEvents(t, run, "C03", rc.Cfg, rc.Hist, func(w *SWorld, applied bool) {
			c03Oracle(run, "C03", w, rc.Cfg, rc.Hist)
			fmt.Printf("replayed [%s] on %v: applied=%v state=%s violations=%d\n", evString(rc.Hist), rc.Cfg, applied, w.StateKey(), run.Violations())
		})
		return
	}
	depth := vk.Pick(run, 4, 6)
	run.Set("depth", depth)
	a := evAlpha{Invalid: true, Skips: []int{2, 3}, Head: true, Advance: []int{40, 7200}, Errors: true, Prefix: true}
	dl := vk.NewDeadline(vk.Pick(run, 10*time.Minute, 45*time.Minute))
	states, trans := 0, 0
	for _, cfg := range c03Configs(run) {
		cfg := cfg
		r := exploreSync(t, run, "C03", cfg, depth, a, dl, func(w *SWorld, hist []Ev) { c03Oracle(run, "C03", w, cfg, hist) })
		states += r.States
		trans += r.Transitions
		if r.Capped {
			run.NotExhaustive("time budget hit in " + cfg.String())
		}
		for i := 0; i < len(r.Histories); i += 1 + len(r.Histories)/20 {
			var k1, k2 string
			runEvents(t, run, "C03", cfg, r.Histories[i], func(w *SWorld, _ bool) { k1 = w.StateKey() })
			runEvents(t, run, "C03", cfg, r.Histories[i], func(w *SWorld, _ bool) { k2 = w.StateKey() })
			if k1 != k2 {
				run.HarnessError("replay divergence on %v [%s]:\n%s\n%s", cfg, evString(r.Histories[i]), k1, k2)
			}
			run.AddValidated(1)
		}
		if len(r.Histories) > 3 {
			run.Sample(map[string]any{"cfg": cfg.String(), "history": evString(r.Histories[len(r.Histories)-1])})
			run.Distinct(cfg.String())
		}
		run.Set("states_"+cfg.String(), r.States)
	}
	// second pass: a Head() request towards lagging trusted peers is in flight while gossip runs ahead,
	// and is then answered with a soft-failing (honest or forged) header; small alphabet, deeper
	lag := SCfg{N: 9, S: 3, NetHead: 3, R: 2, Batch: 1, Hold: true, HeadAgeS: 100, FreshAfterS: true}
	la := evAlpha{Head: true, Errors: true, SoftHead: true, LagHead: true, DupStale: true, Invalid: false}
	ldepth := vk.Pick(run, 6, 8)
	r := exploreSync(t, run, "C03", lag, ldepth, la, dl, func(w *SWorld, hist []Ev) { c03Oracle(run, "C03", w, lag, hist) })
	states += r.States
	trans += r.Transitions
	if r.Capped {
		run.NotExhaustive("time budget hit in " + lag.String())
	}
	run.Set("states_lagging_peers_"+lag.String(), r.States)
	run.Set("depth_lagging_peers", ldepth)
	run.AddStates(int64(states))
	run.AddTransitions(int64(trans))
}
