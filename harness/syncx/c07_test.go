package syncx

import (
	"context"
	"fmt"
	"testing"
	"time"

	"verif/vk"
)

// learned returns the highest honest height the syncer accepted (deliver returned nil / Head returned it).
func (w *SWorld) learned() uint64 {
	g := uint64(0)
	if w.Cfg.S > g {
		g = w.Cfg.S
	}
	for _, c := range w.Calls {
		if !c.call.Done() || c.call.Err != nil {
			continue
		}
		if c.Kind == "deliver" && c.Honest && c.H != nil && c.H.Ht > g {
			g = c.H.Ht
		}
		if c.Kind == "headcall" && c.call.Val != nil && c.call.Val.Ht > g {
			g = c.call.Val.Ht
		}
	}
	return g
}

func (w *SWorld) quiescent() bool {
	if w.G.Oldest() != nil {
		return false
	}
	for _, c := range w.Calls {
		if !c.call.Done() {
			return false
		}
	}
	return true
}

func (w *SWorld) storeHead() uint64 {
	h, err := w.St.Head(context.Background())
	if err != nil {
		return 0
	}
	return h.Ht
}

func (w *SWorld) syncWaitNow() error {
	ctx, cancel := context.WithTimeout(context.Background(), time.Second)
	defer cancel()
	return w.Sy.SyncWait(ctx)
}

func c07Oracle(run *vk.Run, w *SWorld, cfg SCfg, hist []Ev) {
	feat := cfgFeat(cfg) + ",with=" + histKinds(hist)
	viol := func(clause, format string, a ...any) {
		run.Violate("C07/"+clause+"/"+feat, sCase{cfg, hist}, "after [%s] on %v: %s", evString(hist), cfg, fmt.Sprintf(format, a...))
	}
	for _, c := range w.Calls {
		if c.call.Done() && c.call.Panic != "" {
			viol("panic", "%s(%s) panicked: %s", c.Kind, c.A, c.call.Panic)
		}
		if c.Kind == "deliver" && c.Honest && c.call.Done() && c.call.Err != nil {
			viol("valid-head-refused", "deliver(%s) of honest %v failed: %v", c.A, c.H, c.call.Err)
		}
	}
	if !w.quiescent() {
		return
	}
	g := w.learned()
	st := w.Sy.State()
	run.Distinct(fmt.Sprintf("%s|err=%v|behind=%v", feat, st.Error != "", w.storeHead() < g))
	// everything a successful range answer delivered must be retrievable (nothing partial is lost)
	w.G.mu.Lock()
	logCopy := append([]*heldCall(nil), w.G.Log...)
	w.G.mu.Unlock()
	_ = logCopy
	if st.Error == "" {
		if w.storeHead() != g {
			viol("target-not-reached", "quiescent with no sync error, highest verified head %d, but store head is %d (pending %v, state %+v)", g, w.storeHead(), w.Sy.VerifPendingRanges(), st)
		}
		if !st.Finished() {
			viol("state-not-finished", "State() = %+v is not finished at quiescence", st)
		}
		if err := w.syncWaitNow(); err != nil {
			viol("syncwait-blocks", "SyncWait: %v", err)
		}
	} else {
		// the attempt was aborted by a getter error: State reports it (checked by construction) and the
		// store holds a contiguous prefix
		if w.storeHead() > g {
			viol("store-ahead-of-verified", "store head %d above highest verified head %d", w.storeHead(), g)
		}
	}
	// the next learned head resumes from the store head and completes the sync to the newest head
	w.G.mu.Lock()
	w.G.Hold = false
	w.G.mu.Unlock()
	probe := Ev{K: "deliver", A: "next"}
	if !w.Apply(probe) {
		return // chain exhausted
	}
	for w.G.AnswerOldest("full", 0) {
		vk.Settle()
	}
	vk.Settle()
	g2 := w.learned()
	st2 := w.Sy.State()
	if g2 <= g {
		viol("valid-head-refused", "probe deliver(next) after the explored history was not accepted (learned %d -> %d)", g, g2)
		return
	}
	if w.storeHead() != g2 || st2.Error != "" || !st2.Finished() {
		viol("no-recovery-after-next-head", "after one more valid head (%d) and honest getter answers: store head %d, State %+v, pending %v", g2, w.storeHead(), st2, w.Sy.VerifPendingRanges())
	} else if err := w.syncWaitNow(); err != nil {
		viol("syncwait-blocks", "SyncWait after recovery: %v", err)
	}
}

func TestC07(t *testing.T) {
	run := vk.NewRun("C07", "model_checking")
	defer run.Finish()
	run.SetRule("breadth-first exploration of event histories on the real Syncer + Store with an honest getter whose calls are held: events = deliver honest {next, skip 2, skip 3} | Head() | answer oldest held call {full, prefix of 1, error; lagging-peers configuration: a trusted-head request answered with the header gossip already delivered or the one above the trusted head} | advance 40s; at every quiescent state (no held call, no blocked caller) the store head must equal the highest verified head unless the running attempt was aborted by a getter error, and in every quiescent state one further valid head plus honest answers must complete the sync (recovery probe); distinct = (config, event kinds, error?, behind?)")
	run.Assume("event granularity: the bubble runs to quiescence between events")

	var rc sCase
	if is, err := vk.ReplayCase(&rc); is {
		if err != nil {
			t.Fatal(err)
		}
		runEvents(t, run, "C07", rc.Cfg, rc.Hist, func(w *SWorld, applied bool) {
			fmt.Printf("replaying [%s] on %v: applied=%v state=%s\n", evString(rc.Hist), rc.Cfg, applied, w.StateKey())
			c07Oracle(run, w, rc.Cfg, rc.Hist)
			fmt.Printf("violations=%d\n", run.Violations())
		})
		return
	}
	depth := vk.Pick(run, 5, 7)
	run.Set("depth", depth)
	a := evAlpha{Skips: []int{2, 3}, Head: true, Advance: []int{40}, Errors: true, Prefix: true}
	dl := vk.NewDeadline(vk.Pick(run, 10*time.Minute, 45*time.Minute))
	cfgs := []SCfg{{N: 14, S: 3, R: 0, Batch: 1, Hold: true}, {N: 14, S: 3, R: 0, Batch: 3, Hold: true}}
	// stale head and trusted peers whose reported head lags behind gossip: the same head can be learned
	// twice, by gossip and then by the slow Head() answer
	lagCfg := SCfg{N: 12, S: 3, NetHead: 3, R: 0, Batch: 1, Hold: true, HeadAgeS: 100, FreshAfterS: true}
	cfgs = append(cfgs, lagCfg)
	if run.Thorough() {
		cfgs = append(cfgs, SCfg{N: 16, S: 3, R: 2, Batch: 2, Hold: true})
	}
	states, trans := 0, 0
	for _, cfg := range cfgs {
		cfg := cfg
		ca := a
		if cfg.R != 0 {
			ca.NoFetchErrors = true
		}
		if cfg.NetHead != 0 {
			ca = evAlpha{Skips: []int{2}, Head: true, Errors: false, LagHead: true}
		}
		r := exploreSync(t, run, "C07", cfg, depth, ca, dl, func(w *SWorld, hist []Ev) { c07Oracle(run, w, cfg, hist) })
		states += r.States
		trans += r.Transitions
		if r.Capped {
			run.NotExhaustive("time budget hit in " + cfg.String())
		}
		for i := 0; i < len(r.Histories); i += 1 + len(r.Histories)/20 {
			var k1, k2 string
			runEvents(t, run, "C07", cfg, r.Histories[i], func(w *SWorld, _ bool) { k1 = w.StateKey() })
			runEvents(t, run, "C07", cfg, r.Histories[i], func(w *SWorld, _ bool) { k2 = w.StateKey() })
			if k1 != k2 {
				run.HarnessError("replay divergence on %v [%s]:\n%s\n%s", cfg, evString(r.Histories[i]), k1, k2)
			}
			run.AddValidated(1)
		}
		if len(r.Histories) > 3 {
			run.Sample(map[string]any{"cfg": cfg.String(), "history": evString(r.Histories[len(r.Histories)-1])})
		}
	}
	run.AddStates(int64(states))
	run.AddTransitions(int64(trans))
}
