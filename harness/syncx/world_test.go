package syncx

import (
	"bytes"
	"context"
	"errors"
	"fmt"
	"sort"
	"strings"
	gosync "sync"
	"testing"
	"time"

	"github.com/celestiaorg/go-header"
	"github.com/celestiaorg/go-header/store"
	hsync "github.com/celestiaorg/go-header/sync"

	"verif/vk"
)

// SCfg configures one syncer world.
type SCfg struct {
	N     int    `json:"n"`     // honest chain c[1..N]
	S     uint64 `json:"s"`     // store pre-loaded with c[1..S] (0 = empty store)
	R     uint64 `json:"r"`     // trust range of the header type (0 = unlimited)
	Batch int    `json:"batch"` // store write batch size
	// NetHead is the height trusted peers report as their head (0 = N).
	NetHead uint64 `json:"net_head,omitempty"`
	// Hold: getter calls wait for explicit answer events (else answered honestly at once).
	Hold bool `json:"hold"`
	// syncer parameters (seconds; 0 = default used by this harness)
	BlockTimeS  int    `json:"block_time_s,omitempty"`
	RecencyS    int    `json:"recency_s,omitempty"`
	TrustingS   int    `json:"trusting_s,omitempty"`
	PruningS    int    `json:"pruning_s,omitempty"`
	FromHeight  uint64 `json:"sync_from_height,omitempty"`
	FromHash    string `json:"sync_from_hash,omitempty"`
	NoFromFixed bool   `json:"no_fixed_tail,omitempty"`
	// HeadAgeS: age (seconds before bubble start) of the stored head c[S]; later headers are 1s apart.
	HeadAgeS int `json:"head_age_s,omitempty"`
	// StepS: spacing in seconds of the headers up to S (default 1)
	StepS int `json:"step_s,omitempty"`
	// FreshAfterS: headers above S are recent even when c[S] is old (the chain resumed)
	FreshAfterS bool `json:"fresh_after_s,omitempty"`
	// HoldAppend: the first Store.Append of exactly the header of this height is held until a "store"
	// event lets it through or fails it (a stalled write that ends with the caller's deadline)
	HoldAppend uint64 `json:"hold_append,omitempty"`
	// HoldStart: the case is a Start history (c19StartHistory): Start's own initialisation request is held
	HoldStart bool `json:"hold_start,omitempty"`
}

func (c SCfg) String() string {
	return fmt.Sprintf("N%d/S%d/R%d/b%d/hold=%v/age=%ds", c.N, c.S, c.R, c.Batch, c.Hold, c.HeadAgeS)
}

// holdStore decorates the real store for the Syncer: one chosen Append is held until released.
type holdStore struct {
	*store.Store[*vk.H]
	mu     gosync.Mutex
	height uint64
	used   bool
	held   chan error // non-nil while an Append is parked
}

var errStoreStalled = errors.New("vk: store write stalled until the deadline")

func (h *holdStore) Append(ctx context.Context, hs ...*vk.H) error {
	h.mu.Lock()
	if h.height != 0 && !h.used && len(hs) == 1 && hs[0] != nil && hs[0].Ht == h.height {
		h.used = true
		ch := make(chan error, 1)
		h.held = ch
		h.mu.Unlock()
		err := <-ch
		h.mu.Lock()
		h.held = nil
		h.mu.Unlock()
		if err != nil {
			return err
		}
		return h.Store.Append(ctx, hs...)
	}
	h.mu.Unlock()
	return h.Store.Append(ctx, hs...)
}

func (h *holdStore) Holding() bool {
	if h == nil {
		return false
	}
	h.mu.Lock()
	defer h.mu.Unlock()
	return h.held != nil
}

func (h *holdStore) Release(err error) bool {
	h.mu.Lock()
	ch := h.held
	h.mu.Unlock()
	if ch == nil {
		return false
	}
	ch <- err
	return true
}

// Ev is one environment event.
type Ev struct {
	K string `json:"k"`           // deliver | headcall | answer | advance | syncwait
	A string `json:"a,omitempty"` // kind of header / answer
	D int    `json:"d,omitempty"` // seconds (advance) or parameter
}

func (e Ev) String() string {
	switch e.K {
	case "advance":
		return fmt.Sprintf("advance(%ds)", e.D)
	case "headcall", "syncwait":
		return e.K
	}
	if e.D != 0 {
		return fmt.Sprintf("%s(%s,%d)", e.K, e.A, e.D)
	}
	return fmt.Sprintf("%s(%s)", e.K, e.A)
}

func evString(h []Ev) string {
	s := make([]string, len(h))
	for i, e := range h {
		s[i] = e.String()
	}
	return strings.Join(s, " ")
}

// ---------- scripted getter ----------

type getterResp struct {
	hs  []*vk.H
	err error
}

type heldCall struct {
	Kind    string // range | head | get | getbyheight
	From    *vk.H
	To      uint64
	Height  uint64
	Hash    header.Hash
	Trusted *vk.H
	resp    chan getterResp
	Seq     int
}

func (h *heldCall) String() string {
	switch h.Kind {
	case "range":
		return fmt.Sprintf("range(%d,%d)", h.From.Ht, h.To)
	case "head":
		if h.Trusted != nil {
			return fmt.Sprintf("head(trusted=%d)", h.Trusted.Ht)
		}
		return "head()"
	case "getbyheight":
		return fmt.Sprintf("getbyheight(%d)", h.Height)
	}
	return "get(hash)"
}

var errGetter = errors.New("vk: injected getter error")

type ScriptGetter struct {
	mu      gosync.Mutex
	C       vk.Chain
	Evil    vk.Chain // attacker's fork (foreign signature), for soft-failing head answers
	NetHead uint64
	// RangeTop: highest height served by range/height requests (0 = NetHead): the network keeps
	// producing headers even when the trusted peers' reported head lags
	RangeTop uint64
	Hold     bool
	held     []*heldCall
	Log      []*heldCall
	seq      int
	// Policy, when set, decides answers for calls that are not held (nil result => honest).
	Policy func(c *heldCall) *getterResp
}

func (g *ScriptGetter) honest(c *heldCall) getterResp {
	switch c.Kind {
	case "range":
		var out []*vk.H
		top := g.NetHead
		if g.RangeTop > top {
			top = g.RangeTop
		}
		for h := c.From.Ht + 1; h < c.To && h <= top; h++ {
			out = append(out, g.C[h])
		}
		if len(out) == 0 {
			return getterResp{err: header.ErrNotFound}
		}
		return getterResp{hs: out}
	case "head":
		return getterResp{hs: []*vk.H{g.C[g.NetHead]}}
	case "getbyheight":
		if h := g.C.At(c.Height); h != nil && c.Height <= g.NetHead {
			return getterResp{hs: []*vk.H{h}}
		}
		return getterResp{err: header.ErrNotFound}
	case "get":
		for _, h := range g.C[1:] {
			if bytes.Equal(h.Hash(), c.Hash) {
				return getterResp{hs: []*vk.H{h}}
			}
		}
		return getterResp{err: header.ErrNotFound}
	}
	return getterResp{err: errGetter}
}

func (g *ScriptGetter) call(ctx context.Context, c *heldCall) getterResp {
	g.mu.Lock()
	c.Seq = g.seq
	g.seq++
	g.Log = append(g.Log, c)
	if !g.Hold {
		var r *getterResp
		if g.Policy != nil {
			r = g.Policy(c)
		}
		g.mu.Unlock()
		if r != nil {
			return *r
		}
		return g.honest(c)
	}
	c.resp = make(chan getterResp, 1)
	g.held = append(g.held, c)
	g.mu.Unlock()
	select {
	case r := <-c.resp:
		return r
	case <-ctx.Done():
		g.mu.Lock()
		for i, h := range g.held {
			if h == c {
				g.held = append(g.held[:i], g.held[i+1:]...)
				break
			}
		}
		g.mu.Unlock()
		return getterResp{err: ctx.Err()}
	}
}

func (g *ScriptGetter) Head(ctx context.Context, opts ...header.HeadOption[*vk.H]) (*vk.H, error) {
	var p header.HeadParams[*vk.H]
	for _, o := range opts {
		o(&p)
	}
	r := g.call(ctx, &heldCall{Kind: "head", Trusted: p.TrustedHead})
	if len(r.hs) > 0 {
		return r.hs[0], r.err
	}
	return nil, r.err
}

func (g *ScriptGetter) Get(ctx context.Context, hash header.Hash) (*vk.H, error) {
	r := g.call(ctx, &heldCall{Kind: "get", Hash: hash})
	if len(r.hs) > 0 {
		return r.hs[0], r.err
	}
	return nil, r.err
}

func (g *ScriptGetter) GetByHeight(ctx context.Context, h uint64) (*vk.H, error) {
	r := g.call(ctx, &heldCall{Kind: "getbyheight", Height: h})
	if len(r.hs) > 0 {
		return r.hs[0], r.err
	}
	return nil, r.err
}

func (g *ScriptGetter) GetRangeByHeight(ctx context.Context, from *vk.H, to uint64) ([]*vk.H, error) {
	r := g.call(ctx, &heldCall{Kind: "range", From: from, To: to})
	return r.hs, r.err
}

// Oldest returns the oldest held call (nil if none).
func (g *ScriptGetter) Oldest() *heldCall {
	g.mu.Lock()
	defer g.mu.Unlock()
	if len(g.held) == 0 {
		return nil
	}
	for _, h := range g.held {
		if h.Kind == "getbyheight" {
			return h
		}
	}
	return g.held[0]
}

func (g *ScriptGetter) HeldStrings() []string {
	g.mu.Lock()
	defer g.mu.Unlock()
	out := make([]string, len(g.held))
	for i, h := range g.held {
		out[i] = h.String()
	}
	return out
}

// AnswerOldest answers the oldest held call with the given kind.
func (g *ScriptGetter) AnswerOldest(kind string, k int) bool {
	g.mu.Lock()
	if len(g.held) == 0 {
		g.mu.Unlock()
		return false
	}
	// a bifurcation fetch is answered first: its caller holds the Syncer's incoming mutex
	idx := 0
	for i, h := range g.held {
		if h.Kind == "getbyheight" {
			idx = i
			break
		}
	}
	c := g.held[idx]
	g.held = append(g.held[:idx:idx], g.held[idx+1:]...)
	g.mu.Unlock()
	r := g.honest(c)
	switch kind {
	case "full", "honest", "tip":
	case "error":
		r = getterResp{err: errGetter}
	case "notfound":
		r = getterResp{err: header.ErrNotFound}
	case "prefix": // contiguous prefix of length k (contract: non-empty)
		if k < 1 {
			k = 1
		}
		if len(r.hs) > k {
			r.hs = r.hs[:k]
		}
	case "same": // head request: the trusted head itself / the current tip again
		if c.Trusted != nil {
			r = getterResp{hs: []*vk.H{c.Trusted}}
		}
	case "height": // head request: honest header of height k
		if h := g.C.At(uint64(k)); h != nil {
			r = getterResp{hs: []*vk.H{h}}
		}
	case "soft": // head request with trusted head: a header beyond the trust range + soft error
		if h := g.C.At(uint64(k)); h != nil {
			r = getterResp{hs: []*vk.H{h}, err: &header.VerifyError{Reason: vk.ErrTooFar, SoftFailure: true}}
		}
	case "soft-forged": // head request with trusted head t: the attacker's header k above t, paired with the
		// soft failure the Exchange reports for a non-adjacent header it cannot verify directly
		if c.Trusted != nil {
			if h := g.Evil.At(c.Trusted.Ht + uint64(k)); h != nil {
				r = getterResp{hs: []*vk.H{h}, err: &header.VerifyError{Reason: vk.ErrTooFar, SoftFailure: true}}
			}
		}
	default:
		panic("unknown answer kind " + kind)
	}
	c.resp <- r
	return true
}

// ---------- capturing subscriber ----------

type CapSub struct {
	mu gosync.Mutex
	fn func(context.Context, *vk.H) error
}

func (s *CapSub) SetVerifier(f func(context.Context, *vk.H) error) error {
	s.mu.Lock()
	defer s.mu.Unlock()
	s.fn = f
	return nil
}
func (s *CapSub) Subscribe() (header.Subscription[*vk.H], error) { return nil, errors.New("unused") }

func (s *CapSub) verifier() func(context.Context, *vk.H) error {
	s.mu.Lock()
	defer s.mu.Unlock()
	return s.fn
}

// ---------- world ----------

type spawned struct {
	Kind      string // deliver | headcall | syncwait
	A         string
	H         *vk.H // delivered header
	Honest    bool  // delivered header is the honest chain's header and valid at delivery time
	call      *vk.Call[*vk.H]
	collected bool
}

type SWorld struct {
	Cfg    SCfg
	C      vk.Chain
	Evil   vk.Chain // attacker fork (foreign signature) diverging at S
	DS     *vk.LogDS
	St     *store.Store[*vk.H]
	G      *ScriptGetter
	Sub    *CapSub
	Sy     *hsync.Syncer[*vk.H]
	HS     *holdStore // non-nil when cfg.HoldAppend is set
	Calls  []*spawned
	Start0 time.Time
	// model
	HeadHeights []uint64 // heights returned by successful Head() calls, in completion order
	StartErr    error
	StartPanic  string
}

const horizon = 10 * time.Minute

func (c SCfg) blockTime() time.Duration {
	if c.BlockTimeS == 0 {
		return 10 * time.Second
	}
	return time.Duration(c.BlockTimeS) * time.Second
}

func syncerOpts(c SCfg) []hsync.Option {
	opts := []hsync.Option{hsync.WithBlockTime(c.blockTime())}
	if c.RecencyS != 0 {
		opts = append(opts, hsync.WithRecencyThreshold(time.Duration(c.RecencyS)*time.Second))
	}
	tp := time.Hour
	if c.TrustingS != 0 {
		tp = time.Duration(c.TrustingS) * time.Second
	}
	opts = append(opts, hsync.WithTrustingPeriod(tp))
	if c.PruningS != 0 {
		opts = append(opts, hsync.WithPruningWindow(time.Duration(c.PruningS)*time.Second))
	}
	if c.FromHash != "" {
		opts = append(opts, hsync.WithSyncFromHash(c.FromHash))
	}
	switch {
	case c.FromHeight != 0:
		opts = append(opts, hsync.WithSyncFromHeight(c.FromHeight))
	case !c.NoFromFixed && c.FromHash == "":
		opts = append(opts, hsync.WithSyncFromHeight(1))
	}
	return opts
}

func genChain(c SCfg, now time.Time) vk.Chain {
	step := time.Second
	if c.StepS != 0 {
		step = time.Duration(c.StepS) * time.Second
	}
	age := time.Duration(c.HeadAgeS) * time.Second
	if c.HeadAgeS == 0 {
		age = 5 * time.Second
	}
	s := c.S
	if s == 0 {
		s = 1
	}
	// c[S] is `age` old; earlier headers are `step` apart, later ones 1s apart (closer when the chain
	// is long, so that with the default 5s age no header lies beyond the clock-drift allowance)
	later := time.Second
	if c.HeadAgeS == 0 && uint64(c.N) > s+14 {
		later = 12 * time.Second / time.Duration(uint64(c.N)-s)
	}
	steps := make([]time.Duration, c.N)
	for i := range steps {
		if uint64(i+1) < s {
			steps[i] = step
		} else {
			steps[i] = later
		}
	}
	start := now.Add(-age).Add(-time.Duration(s-1) * step)
	if c.FreshAfterS && age > 10*time.Second && int(s) <= len(steps) {
		// the chain halted after c[S] and resumed recently: c[S+1] is 4s old
		steps[s-1] = age - 4*time.Second
	}
	return vk.GenChain(vk.ChainSpec{N: c.N, Start: start, Step: step, Steps: steps, R: c.R})
}

// NewSWorld builds store+getter+subscriber+syncer (not started).
func NewSWorld(cfg SCfg) (*SWorld, error) {
	now := time.Now()
	w := &SWorld{Cfg: cfg, Start0: now, DS: vk.NewLogDS(), Sub: &CapSub{}}
	w.C = genChain(cfg, now)
	forkAt := cfg.S
	if forkAt == 0 {
		forkAt = 1
	}
	w.Evil = w.C.Fork(forkAt, uint64(cfg.N), "evil", 666)
	nh := cfg.NetHead
	if nh == 0 {
		nh = uint64(cfg.N)
	}
	w.G = &ScriptGetter{C: w.C, Evil: w.Evil, NetHead: nh, RangeTop: uint64(cfg.N)}
	st, err := store.NewStore[*vk.H](w.DS.Wrap(false), store.WithWriteBatchSize(cfg.Batch))
	if err != nil {
		return nil, err
	}
	w.St = st
	ctx, cancel := context.WithTimeout(context.Background(), horizon)
	defer cancel()
	if err := st.Start(ctx); err != nil {
		return nil, err
	}
	if cfg.S > 0 {
		if err := st.Append(ctx, w.C.Slice(1, cfg.S)...); err != nil {
			return nil, err
		}
		vk.Settle()
		_ = st.Sync(ctx)
	}
	var syStore header.Store[*vk.H] = st
	if cfg.HoldAppend != 0 {
		w.HS = &holdStore{Store: st, height: cfg.HoldAppend}
		syStore = w.HS
	}
	sy, err := hsync.NewSyncer[*vk.H](w.G, syStore, w.Sub, syncerOpts(cfg)...)
	if err != nil {
		return w, fmt.Errorf("NewSyncer: %w", err)
	}
	w.Sy = sy
	return w, nil
}

// StartSyncer starts the syncer with getter calls answered honestly, then applies cfg.Hold.
func (w *SWorld) StartSyncer() {
	ctx, cancel := context.WithTimeout(context.Background(), horizon)
	defer cancel()
	w.StartErr, w.StartPanic = vk.TryErr(func() error { return w.Sy.Start(ctx) })
	vk.Settle()
	w.G.mu.Lock()
	w.G.Hold = w.Cfg.Hold
	w.G.mu.Unlock()
}

func (w *SWorld) Close() {
	// release anything held so goroutines can end
	if w.HS != nil {
		w.HS.Release(errStoreStalled)
	}
	for w.G.AnswerOldest("error", 0) {
	}
	if w.Sy != nil && w.StartErr == nil && w.StartPanic == "" {
		_ = w.Sy.Stop(context.Background())
	}
	vk.Settle()
	for w.G.AnswerOldest("error", 0) {
		vk.Settle()
	}
	ctx, cancel := context.WithTimeout(context.Background(), horizon)
	_ = w.St.Stop(ctx)
	cancel()
	vk.Settle()
}

// top is the highest honest height the syncer has been shown successfully (store head or accepted deliveries).
func (w *SWorld) top() uint64 {
	t := uint64(0)
	if h, err := w.St.Head(context.Background()); err == nil {
		t = h.Ht
	}
	for _, r := range w.Sy.VerifPendingRanges() {
		if r[1] > t {
			t = r[1]
		}
	}
	return t
}

// header for a deliver event of the given kind, relative to the current top.
func (w *SWorld) deliverHeader(kind string, d int) (h *vk.H, honestValid bool) {
	t := w.top()
	n := uint64(w.Cfg.N)
	at := func(x uint64) *vk.H { return w.C.At(x) }
	switch kind {
	case "next":
		return at(t + 1), t+1 <= n
	case "skip": // honest header d above the top
		return at(t + uint64(d)), t+uint64(d) <= n
	case "dup":
		return at(t), false
	case "stale":
		if t > 2 {
			return at(t - 2), false
		}
		return at(1), false
	case "forged-adj": // attacker header right above the top
		return w.Evil.At(t + 1), false
	case "forged-far": // attacker header far above the top (cannot be verified directly)
		return w.Evil.At(t + uint64(d)), false
	case "badlink": // honest signature impossible for an attacker; a header with a broken parent link and foreign sig
		if b := at(t + 1); b != nil {
			c := b.Clone()
			c.Prev = []byte("forged-parent")
			c.Sig = "evil"
			c.Hash()
			return c, false
		}
	case "wrongchain":
		if b := at(t + 1); b != nil {
			c := b.Clone()
			c.Chain = "other"
			c.Hash()
			return c, false
		}
	case "future":
		if b := at(t + 1); b != nil {
			c := b.Clone()
			c.TNano = time.Now().Add(time.Hour).UnixNano()
			c.Hash()
			return c, false
		}
	case "zero":
		return nil, false
	}
	return nil, false
}

// Apply executes one event; false if the event is not applicable in this state.
func (w *SWorld) Apply(e Ev) bool {
	switch e.K {
	case "deliver":
		h, honest := w.deliverHeader(e.A, e.D)
		if h == nil && e.A != "zero" {
			return false
		}
		fn := w.Sub.verifier()
		if fn == nil {
			return false
		}
		sp := &spawned{Kind: "deliver", A: e.A, H: h, Honest: honest}
		sp.call = vk.Spawn(func() (*vk.H, error) {
			ctx, cancel := context.WithTimeout(context.Background(), horizon)
			defer cancel()
			return nil, fn(ctx, h)
		})
		w.Calls = append(w.Calls, sp)
	case "headcall":
		sp := &spawned{Kind: "headcall"}
		sp.call = vk.Spawn(func() (*vk.H, error) {
			ctx, cancel := context.WithTimeout(context.Background(), horizon)
			defer cancel()
			return w.Sy.Head(ctx)
		})
		w.Calls = append(w.Calls, sp)
	case "syncwait":
		sp := &spawned{Kind: "syncwait"}
		sp.call = vk.Spawn(func() (*vk.H, error) {
			ctx, cancel := context.WithTimeout(context.Background(), time.Second)
			defer cancel()
			return nil, w.Sy.SyncWait(ctx)
		})
		w.Calls = append(w.Calls, sp)
	case "answer":
		if !w.G.AnswerOldest(e.A, e.D) {
			return false
		}
	case "advance":
		time.Sleep(time.Duration(e.D) * time.Second)
	case "store": // let the held Append through ("ok") or fail it ("fail")
		var err error
		if e.A == "fail" {
			err = errStoreStalled
		}
		if w.HS == nil || !w.HS.Release(err) {
			return false
		}
	default:
		panic("unknown event " + e.K)
	}
	vk.Settle()
	return true
}

// StoredHeights lists every height that has a header in the datastore image or the pending batch.
func (w *SWorld) StoredHeights() []uint64 {
	seen := map[uint64]bool{}
	for _, p := range w.St.VerifPendingHeights() {
		seen[p] = true
	}
	for k := range w.DS.Image() {
		var h uint64
		if n, _ := fmt.Sscanf(k, "/headers/%d", &h); n == 1 && fmt.Sprintf("/headers/%d", h) == k {
			seen[h] = true
		}
	}
	var out []uint64
	for h := range seen {
		out = append(out, h)
	}
	sort.Slice(out, func(i, j int) bool { return out[i] < out[j] })
	return out
}

// StateKey canonicalises the world for deduplication.
func (w *SWorld) StateKey() string {
	st := w.Sy.State()
	var calls []string
	for _, c := range w.Calls {
		s := c.Kind + ":" + c.A
		if c.call.Done() {
			s += fmt.Sprintf("=done(%v)", c.call.Err != nil)
		} else {
			s += "=blocked"
		}
		calls = append(calls, s)
	}
	head, tail := w.St.VerifPointers()
	return fmt.Sprintf("stored=%v|head=%d|tail=%d|height=%d|pend=%v|sshead=%d|state=%d,%d,%d,%v|held=%v|calls=%v|t=%d|heads=%v",
		w.StoredHeights(), head, tail, w.St.Height(), w.Sy.VerifPendingRanges(), w.Sy.VerifSyncStoreHead(),
		st.FromHeight, st.ToHeight, st.Height, st.Error != "", append(w.G.HeldStrings(), fmt.Sprint("store-held=", w.HS.Holding())), calls, int(time.Since(w.Start0).Seconds()), w.HeadHeights)
}

// runEvents replays a history on a fresh world inside a bubble.
func runEvents(t *testing.T, run *vk.Run, id string, cfg SCfg, hist []Ev, fn func(w *SWorld, applied bool)) {
	run.Inflight(shardOf(t), sCase{cfg, hist})
	br := vk.Bubble(t, func() {
		w, err := NewSWorld(cfg)
		if err != nil {
			run.HarnessError("%s: world: %v", id, err)
			return
		}
		defer w.Close()
		w.StartSyncer()
		if w.StartPanic != "" || w.StartErr != nil {
			fn(w, false)
			return
		}
		ok := true
		for _, e := range hist {
			if !w.Apply(e) {
				ok = false
				break
			}
			w.collectHeads()
		}
		fn(w, ok)
	})
	if br.Panic != "" {
		run.Violate(id+"/panic/"+cfgFeat(cfg), sCase{cfg, hist}, "panic while running [%s] on %v: %s\n%s", evString(hist), cfg, br.Panic, br.Stack)
	}
	if br.Deadlock {
		run.Violate(id+"/goroutine-leak-or-deadlock/"+cfgFeat(cfg), sCase{cfg, hist}, "bubble ended with blocked goroutines after [%s] on %v", evString(hist), cfg)
	}
}

// collectHeads records completed Head() results in completion order.
func (w *SWorld) collectHeads() {
	for _, c := range w.Calls {
		if c.Kind == "headcall" && c.call.Done() && !c.collected {
			c.collected = true
			if c.call.Err == nil && c.call.Val != nil {
				w.HeadHeights = append(w.HeadHeights, c.call.Val.Ht)
			}
		}
	}
}

type sCase struct {
	Cfg  SCfg `json:"cfg"`
	Hist []Ev `json:"hist"`
}

func cfgFeat(c SCfg) string {
	return fmt.Sprintf("S%d,R%d,b%d,hold=%v", c.S, c.R, c.Batch, c.Hold)
}

func shardOf(t *testing.T) int {
	name := t.Name()
	i := strings.LastIndex(name, "/s")
	if i < 0 {
		return 0
	}
	n := 0
	fmt.Sscanf(name[i+2:], "%d", &n)
	return n
}
