package syncx

import (
	"context"
	"encoding/hex"
	"fmt"
	"os"
	"strings"
	"testing"
	"time"

	"github.com/celestiaorg/go-header/store"
	hsync "github.com/celestiaorg/go-header/sync"

	"verif/vk"
)

// c16Params is one tail policy / timing configuration.
type c16Params struct {
	WindowS    int    `json:"window_s"`
	FromHeight uint64 `json:"from_height,omitempty"`
	FromHash   string `json:"from_hash,omitempty"` // "", c<height>, unknown
	BlockTimeS int    `json:"block_time_s"`
	TrustingS  int    `json:"trusting_s"`
}

func (p c16Params) String() string {
	return fmt.Sprintf("window=%ds fromHeight=%d fromHash=%q blockTime=%ds trusting=%ds", p.WindowS, p.FromHeight, p.FromHash, p.BlockTimeS, p.TrustingS)
}

type c16Case struct {
	Shape string      `json:"shape"`
	Store string      `json:"store"`  // empty | full | pruned
	P     []c16Params `json:"params"` // applied in order: Start, Head, deliver, Stop, next...
}

func (c c16Case) String() string {
	ps := make([]string, len(c.P))
	for i, p := range c.P {
		ps[i] = "{" + p.String() + "}"
	}
	return fmt.Sprintf("shape=%s store=%s params=%s", c.Shape, c.Store, strings.Join(ps, " -> "))
}

const (
	c16B = 10  // seconds: nominal block time
	c16W = 100 // seconds: nominal pruning window
)

// c16Shape returns the spacing pattern (seconds between consecutive headers).
func c16Shape(name string) []int {
	rep := func(n, v int) []int {
		o := make([]int, n)
		for i := range o {
			o[i] = v
		}
		return o
	}
	switch name {
	case "uniform":
		return rep(13, c16B)
	case "fast":
		return rep(13, c16B/2)
	case "slow":
		return rep(13, 3*c16B)
	case "halted-mid":
		s := rep(13, c16B)
		s[6] = 5 * c16W
		return s
	case "halted-tip":
		s := rep(13, c16B)
		s[10] = 5 * c16W
		return s
	case "young":
		return rep(2, c16B)
	case "slow-then-fast": // the old part of the chain at the nominal block time, the recent part much faster
		s := rep(13, c16B)
		for i := 6; i < len(s); i++ {
			s[i] = 1
		}
		return s
	case "fast-then-slow":
		s := rep(13, 1)
		for i := 6; i < len(s); i++ {
			s[i] = c16B
		}
		return s
	case "bursty":
		s := rep(13, 1)
		for i := 1; i < len(s); i += 2 {
			s[i] = 40
		}
		return s
	}
	panic("shape " + name)
}

func c16Chain(shape string, now time.Time) vk.Chain {
	sp := c16Shape(shape)
	total := time.Duration(0)
	steps := make([]time.Duration, len(sp))
	for i, s := range sp {
		steps[i] = time.Duration(s) * time.Second
		total += steps[i]
	}
	// the tip is 2s old
	start := now.Add(-2 * time.Second).Add(-total)
	return vk.GenChain(vk.ChainSpec{N: len(sp) + 1, Start: start, Step: time.Second, Steps: steps})
}

func c16Opts(p c16Params, c vk.Chain) []hsync.Option {
	opts := []hsync.Option{hsync.WithTrustingPeriod(time.Duration(p.TrustingS) * time.Second), hsync.WithPruningWindow(time.Duration(p.WindowS) * time.Second)}
	if p.BlockTimeS != 0 {
		opts = append(opts, hsync.WithBlockTime(time.Duration(p.BlockTimeS)*time.Second))
	}
	if p.FromHeight != 0 {
		opts = append(opts, hsync.WithSyncFromHeight(p.FromHeight))
	}
	switch {
	case p.FromHash == "unknown":
		opts = append(opts, hsync.WithSyncFromHash(hex.EncodeToString([]byte("unknown-hash-unknown-hash-000000"))))
	case strings.HasPrefix(p.FromHash, "c"):
		var h uint64
		fmt.Sscanf(p.FromHash, "c%d", &h)
		if hd := c.At(h); hd != nil {
			opts = append(opts, hsync.WithSyncFromHash(hex.EncodeToString(hd.Hash())))
		}
	}
	return opts
}

type c16Out struct {
	steps []string // what happened per parameter set
}

func c16Exec(t *testing.T, run *vk.Run, c c16Case) {
	run.Inflight(shardOf(t), c)
	viol := func(clause, feat, format string, a ...any) {
		run.Violate("C16/"+clause+"/"+feat, c, "%s: %s", c, fmt.Sprintf(format, a...))
	}
	br := vk.Bubble(t, func() {
		now := time.Now()
		chain := c16Chain(c.Shape, now)
		n := chain.N()
		ds := vk.NewLogDS()
		st, err := store.NewStore[*vk.H](ds.Wrap(false), store.WithWriteBatchSize(2))
		if err != nil {
			run.HarnessError("C16 store: %v", err)
			return
		}
		bg := context.Background()
		_ = st.Start(bg)
		defer func() {
			sctx, sc := context.WithTimeout(bg, time.Minute)
			_ = st.Stop(sctx)
			sc()
		}()
		h0 := n - 2
		if n <= 3 {
			h0 = n - 1
		}
		switch c.Store {
		case "full":
			_ = st.Append(bg, chain.Slice(1, h0)...)
		case "pruned":
			t0 := uint64(4)
			if t0 > h0 {
				t0 = h0
			}
			_ = st.Append(bg, chain.Slice(t0, h0)...)
		}
		vk.Settle()
		_ = st.Sync(bg)
		g := &ScriptGetter{C: chain, NetHead: n}
		for i, p := range c.P {
			policy := "window"
			hashSet := p.FromHash != ""
			if strings.HasPrefix(p.FromHash, "c") {
				// c16Opts only passes a hash the chain has: "c6" on a 3-header chain configures nothing
				var hh uint64
				fmt.Sscanf(p.FromHash, "c%d", &hh)
				hashSet = chain.At(hh) != nil
			}
			switch {
			case hashSet:
				policy = "hash:" + map[bool]string{true: "unknown", false: "known"}[p.FromHash == "unknown"]
			case p.FromHeight > n:
				policy = "height>N"
			case p.FromHeight != 0:
				policy = "height"
			}
			bt := "bt=set"
			if p.BlockTimeS == 0 {
				bt = "bt=0"
			}
			feat := fmt.Sprintf("shape=%s,store=%s,policy=%s,%s,step=%d", c.Shape, c.Store, policy, bt, i)
			if hd, _ := st.VerifPointers(); policy == "height" && hd != 0 && p.FromHeight > hd+1 {
				feat += ",tail-above-local-head+1"
			}
			before := map[uint64]bool{}
			for _, h := range storedHeights(ds, st) {
				before[h] = true
			}
			sub := &CapSub{}
			sy, err := hsync.NewSyncer[*vk.H](g, st, sub, c16Opts(p, chain)...)
			if err != nil {
				run.Distinct(feat + "|rejected-by-validate")
				continue // not accepted by Validate
			}
			logStart := len(g.Log)
			ctx, cancel := context.WithTimeout(bg, 5*time.Minute)
			call := vk.Spawn(func() (*vk.H, error) { return nil, sy.Start(ctx) })
			for j := 0; j < 310 && !call.Done(); j++ {
				vk.Advance(time.Second)
			}
			if !call.Done() {
				viol("start-hangs", feat, "Start did not return within 5 virtual minutes")
				cancel()
				return
			}
			if call.Panic != "" {
				viol("panic", feat, "Start panicked: %s\n%s", call.Panic, call.Stack)
				cancel()
				return
			}
			startErr := call.Err
			mayFail := policy == "hash:unknown" || policy == "height>N"
			if startErr != nil && !mayFail {
				cls := "start-fails"
				if strings.Contains(startErr.Error(), "deadline") {
					cls = "start-wedged-until-deadline"
				}
				viol(cls, feat, "Start failed although the configured tail exists: %v", startErr)
			}
			var headErr error
			if startErr == nil {
				vk.Advance(2 * time.Second)
				hc := vk.Spawn(func() (*vk.H, error) { return sy.Head(ctx) })
				for j := 0; j < 310 && !hc.Done(); j++ {
					vk.Advance(time.Second)
				}
				switch {
				case !hc.Done():
					viol("head-hangs", feat, "Head() did not return within 5 virtual minutes")
				case hc.Panic != "":
					viol("panic", feat, "Head panicked: %s", hc.Panic)
				case hc.Err != nil && !mayFail:
					viol("head-fails", feat, "Head() failed: %v", hc.Err)
				}
				headErr = hc.Err
				// the rest of the chain arrives by gossip (a no-op when Start already synced to the tip):
				// with a recent local head Start asks nobody, and the tail is only re-estimated when a new
				// head is learned
				if fn := sub.verifier(); fn != nil {
					order := []uint64{n} // the tip first: the tail is then re-estimated across the whole gap at once
					for h := uint64(1); h < n; h++ {
						order = append(order, h)
					}
					for _, h := range order {
						hd := chain[h]
						dc := vk.Spawn(func() (*vk.H, error) { return nil, fn(ctx, hd) })
						for j := 0; j < 60 && !dc.Done(); j++ {
							vk.Advance(time.Second)
						}
						if dc.Panic != "" {
							viol("panic", feat, "gossip delivery of %d panicked: %s", h, dc.Panic)
						}
					}
				}
				// let the sync loop finish
				vk.Advance(5 * time.Second)
				_ = sy.Stop(bg)
				vk.Advance(time.Second)
			}
			cancel()
			vk.Settle()
			_ = st.Sync(bg)
			// getter must never be asked for heights outside the chain
			for _, l := range g.Log[logStart:] {
				if l.Kind == "getbyheight" && (l.Height == 0 || l.Height > n+3) {
					viol("tail-height-out-of-chain", feat, "the Syncer asked the getter for height %d (chain is 1..%d)", l.Height, n)
				}
				if l.Kind == "range" && (l.To > n+70 || l.From.Ht >= l.To) {
					viol("tail-height-out-of-chain", feat, "the Syncer asked the getter for range (%d,%d)", l.From.Ht, l.To)
				}
			}
			// store invariants
			after := storedHeights(ds, st)
			head, tail := st.VerifPointers()
			if os.Getenv("VERIF_DEBUG") != "" {
				fmt.Printf("DEBUG step %d: before=%v after=%v tail=%d head=%d startErr=%v\n", i, before, after, tail, head, startErr)
			}
			run.Distinct(fmt.Sprintf("%s|startErr=%v|headErr=%v|tail=%d|head=%d", feat, startErr != nil, headErr != nil, tail, head))
			if len(after) > 0 {
				if tail < 1 || tail > head {
					viol("tail-outside-chain", feat, "Tail %d Head %d", tail, head)
				}
				for h := tail; h <= head; h++ {
					rc, rcc := context.WithTimeout(bg, time.Second)
					got, gerr := st.GetByHeight(rc, h)
					rcc()
					if gerr != nil || got == nil || string(got.Hash()) != string(chain[h].Hash()) {
						viol("store-not-gap-free", feat, "GetByHeight(%d) = %v, %v with Tail %d Head %d (stored %v)", h, got, gerr, tail, head, after)
						break
					}
				}
			} else if len(before) > 0 && startErr == nil {
				viol("store-emptied", feat, "the store held %d headers before and is empty now", len(before))
			}
			// pruning respects the window when spacing <= blockTime
			maxSpacing := 0
			for _, s := range c16Shape(c.Shape) {
				if s > maxSpacing {
					maxSpacing = s
				}
			}
			if policy == "window" && p.BlockTimeS != 0 && maxSpacing <= p.BlockTimeS && head != 0 && startErr == nil {
				cut := chain[head].Time().Add(-time.Duration(p.WindowS) * time.Second)
				for h := range before {
					if !chain[h].Time().Before(cut) && h < tail {
						viol("pruned-inside-window", feat, "header %d (time %v) is younger than head time - window (%v) but was deleted (tail now %d)", h, chain[h].Time().Format("15:04:05"), cut.Format("15:04:05"), tail)
						break
					}
				}
			}
		}
	})
	if br.Panic != "" {
		viol("panic", "bubble", "%s\n%s", br.Panic, br.Stack)
	}
	if br.Deadlock {
		viol("goroutine-leak-or-deadlock", "bubble", "goroutines left blocked")
	}
}

func storedHeights(ds *vk.LogDS, st *store.Store[*vk.H]) []uint64 {
	seen := map[uint64]bool{}
	for _, p := range st.VerifPendingHeights() {
		seen[p] = true
	}
	for k := range ds.Image() {
		var h uint64
		if n, _ := fmt.Sscanf(k, "/headers/%d", &h); n == 1 && fmt.Sprintf("/headers/%d", h) == k {
			seen[h] = true
		}
	}
	var out []uint64
	for h := range seen {
		out = append(out, h)
	}
	return out
}

func c16ParamSets(n uint64, thorough bool) []c16Params {
	var out []c16Params
	// n*b makes window/blockTime (and trustingPeriod/blockTime) equal to the head height exactly
	windows := []int{c16W / 2, c16W, 3 * c16W, c16B * int(n), c16B * (int(n) - 2)}
	heights := []uint64{0, 1, 3, 6, n - 2, n, n + 3}
	hashes := []string{"", "c2", "c6", fmt.Sprintf("c%d", n-2), "unknown"}
	bts := []int{0, c16B, 10 * c16B}
	trs := []int{600, 86400, c16B * int(n)}
	for _, w := range windows {
		for _, bt := range bts {
			for _, tr := range trs {
				for _, h := range heights {
					out = append(out, c16Params{WindowS: w, FromHeight: h, BlockTimeS: bt, TrustingS: tr})
				}
				for _, hs := range hashes[1:] {
					out = append(out, c16Params{WindowS: w, FromHash: hs, BlockTimeS: bt, TrustingS: tr})
					if thorough {
						out = append(out, c16Params{WindowS: w, FromHash: hs, FromHeight: 6, BlockTimeS: bt, TrustingS: tr})
					}
				}
			}
		}
	}
	// PruningWindow 0 is only accepted together with a fixed tail
	out = append(out, c16Params{WindowS: 0, FromHeight: 3, BlockTimeS: c16B, TrustingS: 86400}, c16Params{WindowS: 0, FromHash: "c2", BlockTimeS: 0, TrustingS: 86400},
		c16Params{WindowS: 0, BlockTimeS: c16B, TrustingS: 86400})
	return out
}

func TestC16(t *testing.T) {
	run := vk.NewRun("C16", "model_checking")
	defer run.Finish()
	run.SetRule("real Syncer through its public API (NewSyncer, Start, Head, gossip delivery of the whole chain, Stop, reconfigure, Start) on a real store, honest getter serving the chain: every Validate-accepted parameter set from PruningWindow {0,w/2,w,3w} x SyncFromHeight {0,1,3,6,h0,N,N+3} x SyncFromHash {none, below tail, mid, head, unknown} x blockTime {unset, b, 10b} x trustingPeriod {small, large}, x chain shape {uniform, fast, slow, halted mid, halted tip, young, bursty, slow-then-fast, fast-then-slow} x store {empty, [1..h0], [4..h0]}; plus every ordered pair of a reduced parameter list as a reconfiguration; distinct = (shape, store, policy, blockTime set?, step, outcome, resulting tail/head)")
	run.Assume("Start/Head may fail only for an unknown SyncFromHash or a SyncFromHeight above the network head")

	var rc c16Case
	if is, err := vk.ReplayCase(&rc); is {
		if err != nil {
			t.Fatal(err)
		}
		c16Exec(t, run, rc)
		fmt.Printf("replayed %s: violations=%d\n", rc, run.Violations())
		return
	}
	dl := vk.NewDeadline(vk.Pick(run, 10*time.Minute, 45*time.Minute))
	shapes := []string{"uniform", "fast", "slow", "halted-mid", "halted-tip", "young", "bursty", "slow-then-fast", "fast-then-slow"}
	stores := []string{"empty", "full", "pruned"}
	var cases []c16Case
	for _, sh := range shapes {
		n := uint64(len(c16Shape(sh)) + 1)
		ps := c16ParamSets(n, run.Thorough())
		for _, stn := range stores {
			for _, p := range ps {
				cases = append(cases, c16Case{Shape: sh, Store: stn, P: []c16Params{p}})
			}
			// reconfigurations: ordered pairs (thorough: triples) of a reduced list
			red := []c16Params{
				{WindowS: c16W, BlockTimeS: c16B, TrustingS: 86400},
				{WindowS: c16W / 2, BlockTimeS: c16B, TrustingS: 86400},
				{WindowS: 3 * c16W, BlockTimeS: c16B, TrustingS: 86400},
				{WindowS: c16W, FromHeight: 1, BlockTimeS: c16B, TrustingS: 86400},
				{WindowS: c16W, FromHeight: 6, BlockTimeS: c16B, TrustingS: 86400},
				{WindowS: c16W, FromHeight: n - 2, BlockTimeS: c16B, TrustingS: 86400},
				{WindowS: c16W, FromHash: "c2", BlockTimeS: c16B, TrustingS: 86400},
				{WindowS: c16W, FromHash: "c6", BlockTimeS: c16B, TrustingS: 86400},
				{WindowS: c16W, BlockTimeS: 0, TrustingS: 86400},
			}
			for _, a := range red {
				for _, b := range red {
					cases = append(cases, c16Case{Shape: sh, Store: stn, P: []c16Params{a, b}})
					if run.Thorough() {
						for _, c3 := range red[:5] {
							cases = append(cases, c16Case{Shape: sh, Store: stn, P: []c16Params{a, b, c3}})
						}
					}
				}
			}
		}
	}
	run.Set("cases", len(cases))
	q := vk.NewWorkQueue(len(cases))
	vk.Shards(t, vk.NumShards(), func(t *testing.T, shard int) {
		for {
			if dl.Hit() {
				run.NotExhaustive("time budget hit")
				return
			}
			i, ok := q.Next()
			if !ok {
				return
			}
			c16Exec(t, run, cases[i])
			run.AddEval(1)
			if i%577 == 0 {
				run.Sample(cases[i].String())
			}
		}
	})
	run.AddValidated(0)
}
