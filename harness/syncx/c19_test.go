package syncx

import (
	"context"
	"errors"
	"fmt"
	"testing"
	"time"

	"verif/vk"
)

const (
	c19Recency  = 30 * time.Second // 3 x blockTime(10s)
	c19Trusting = time.Hour
)

// headMeta is recorded when a Head() call is issued.
type headMeta struct {
	subj       *vk.H // subjective head at issue time (nil = none)
	recent     bool
	expired    bool
	headCalls  int // getter Head calls logged so far
	alone      bool
	issuedAt   time.Time
	closedAt   time.Time // virtual time at which the call had completed
	checkedFor bool
	closed     bool
	delta      int
	last       *heldCall
	// grp: overlapping Head() calls form one group (they must share one request)
	grp int
}

func (w *SWorld) subjective() *vk.H {
	t := w.top()
	// the Syncer's own notion of its head (hook): after a failed store write it can be ahead of what
	// the store holds, and it is what Head() decides recency on
	if sh := w.Sy.VerifSyncStoreHead(); sh > t {
		t = sh
	}
	if t == 0 {
		return nil
	}
	return w.C.At(t)
}

func (w *SWorld) getterHeadCalls() (n int, last *heldCall) {
	w.G.mu.Lock()
	defer w.G.mu.Unlock()
	for _, l := range w.G.Log {
		if l.Kind == "head" {
			n++
			last = l
		}
	}
	return
}

func c19Events(w *SWorld) []Ev {
	var evs []Ev
	if o := w.G.Oldest(); o != nil {
		switch {
		case o.Kind == "head" && o.Trusted != nil:
			evs = append(evs, Ev{K: "answer", A: "tip"}, Ev{K: "answer", A: "same"}, Ev{K: "answer", A: "error"},
				Ev{K: "answer", A: "soft", D: w.Cfg.N}, Ev{K: "advance", D: 3})
			if w.Cfg.NetHead != 0 {
				// peers lagging behind gossip: one above the head the request was verified against, and the real tip
				evs = append(evs, Ev{K: "answer", A: "height", D: int(o.Trusted.Ht) + 1}, Ev{K: "answer", A: "height", D: w.Cfg.N})
			}
		case o.Kind == "head":
			evs = append(evs, Ev{K: "answer", A: "tip"}, Ev{K: "answer", A: "height", D: 1}, Ev{K: "answer", A: "error"})
		case o.Kind == "range":
			evs = append(evs, Ev{K: "answer", A: "full"}, Ev{K: "answer", A: "error"})
		default:
			evs = append(evs, Ev{K: "answer", A: "honest"}, Ev{K: "answer", A: "error"})
		}
		if o.Kind == "getbyheight" {
			return evs
		}
	}
	if w.Cfg.HoldAppend != 0 {
		// stalled-write configuration: small alphabet, explored deeper
		if w.HS.Holding() {
			evs = append(evs, Ev{K: "store", A: "fail"}, Ev{K: "store", A: "ok"})
		}
		evs = append(evs, Ev{K: "headcall"}, Ev{K: "deliver", A: "skip", D: 2})
		return evs
	}
	evs = append(evs, Ev{K: "headcall"}, Ev{K: "deliver", A: "next"}, Ev{K: "advance", D: 40}, Ev{K: "advance", D: 4000})
	return evs
}

func c19Oracle(run *vk.Run, w *SWorld, cfg SCfg, hist []Ev, metas map[*spawned]*headMeta) {
	feat := fmt.Sprintf("S%d,age=%d,with=%s", cfg.S, cfg.HeadAgeS, histKinds(hist))
	viol := func(clause, format string, a ...any) {
		run.Violate("C19/"+clause+"/"+feat, sCase{cfg, hist}, "after [%s] on %v: %s", evString(hist), cfg, fmt.Sprintf(format, a...))
	}
	// single flight: at most one head request in flight
	heldHeads := 0
	for _, s := range w.G.HeldStrings() {
		if len(s) >= 4 && s[:4] == "head" {
			heldHeads++
		}
	}
	if heldHeads > 1 {
		viol("not-single-flight", "%d head requests to the trusted peers are in flight at once: %v", heldHeads, w.G.HeldStrings())
	}
	// monotone results
	for i := 1; i < len(w.HeadHeights); i++ {
		if w.HeadHeights[i] < w.HeadHeights[i-1] {
			viol("head-height-decreased", "successive Head() results %v", w.HeadHeights)
		}
	}
	now := time.Now()
	for _, c := range w.Calls {
		if c.Kind != "headcall" || !c.call.Done() {
			continue
		}
		m := metas[c]
		if c.call.Panic != "" {
			viol("panic", "Head() panicked: %s", c.call.Panic)
			continue
		}
		if c.call.Err == nil {
			if h := c.call.Val; h == nil {
				viol("zero-head-nil-error", "Head() returned a zero header and nil error")
			} else if m != nil && (m.subj == nil || m.expired) && h.Time().Add(c19Trusting).Before(m.issuedAt) {
				viol("expired-head-adopted", "(re)initialisation adopted %v which was already expired when Head() was called", h)
			} else if m != nil && (m.subj == nil || m.expired) && m.closed && h.Time().Add(c19Trusting).Before(m.closedAt) {
				// the statement speaks about the head that is adopted: a head that expired while the request
				// was in flight (slow trusted peer) is expired when it is adopted
				viol("expired-head-adopted", "(re)initialisation adopted %v, which had expired (trusting period %v) by the time the trusted peers' answer arrived at %v", h, c19Trusting, m.closedAt.UTC())
			}
		}
		if m == nil || m.checkedFor || !m.closed {
			continue
		}
		m.checkedFor = true
		delta, last := m.delta, m.last
		cls := "stale"
		switch {
		case m.subj == nil:
			cls = "empty"
		case m.expired:
			cls = "expired"
		case m.recent:
			cls = "recent"
		}
		run.Distinct(fmt.Sprintf("S%d,age=%d|%s|delta=%d|err=%v", cfg.S, cfg.HeadAgeS, cls, delta, c.call.Err != nil))
		if !m.alone {
			continue
		}
		switch cls {
		case "recent":
			if delta != 0 {
				viol("network-request-with-recent-head", "subjective head %v was recent, yet Head() made %d head requests", m.subj, delta)
			}
			if c.call.Err != nil || c.call.Val == nil || c.call.Val.Ht < m.subj.Ht {
				viol("recent-head-not-returned", "Head() = %v, %v with recent subjective head %v", c.call.Val, c.call.Err, m.subj)
			}
		case "stale":
			if delta != 1 {
				viol("stale-head-request-count", "stale subjective head %v: Head() made %d head requests, want exactly 1", m.subj, delta)
			} else if last.Trusted == nil || string(last.Trusted.Hash()) != string(m.subj.Hash()) {
				viol("stale-head-request-not-verified-against-subjective", "the head request carried trusted head %v, subjective head was %v", last.Trusted, m.subj)
			}
			if c.call.Err == nil && c.call.Val != nil && c.call.Val.Ht < m.subj.Ht {
				viol("head-downgraded", "Head() returned %v below the subjective head %v", c.call.Val, m.subj)
			}
		case "empty", "expired":
			if delta < 1 {
				viol("no-reinitialisation", "subjective head missing/expired but Head() asked nobody (result %v, %v)", c.call.Val, c.call.Err)
			} else if delta == 1 && last != nil && last.Trusted != nil {
				// a request carrying a trusted head is served by ordinary (tracked) peers and verified
				// against that header; (re)initialisation must ask the trusted peers, i.e. carry none
				viol("reinitialisation-not-from-trusted-peers", "subjective head missing/expired, yet the head request carried trusted head %v (it is then answered by untrusted peers and anchored on an expired header)", last.Trusted)
			}
		}
	}
	// concurrent callers share one request: for every group of overlapping Head() calls issued on a
	// stale (not recent, not expired) subjective head, exactly one head request is made in total,
	// whatever its answer is
	type grpInfo struct {
		first, end int
		open       bool
		stale      bool
		n          int
	}
	groups := map[int]*grpInfo{}
	for _, c := range w.Calls {
		m := metas[c]
		if c.Kind != "headcall" || m == nil {
			continue
		}
		g := groups[m.grp]
		if g == nil {
			g = &grpInfo{first: m.headCalls, stale: m.subj != nil && !m.recent && !m.expired}
			groups[m.grp] = g
		}
		g.n++
		if !m.closed {
			g.open = true
		} else if e := m.headCalls + m.delta; e > g.end {
			g.end = e
		}
	}
	for id, g := range groups {
		if g.open || !g.stale || g.n < 2 {
			continue
		}
		if reqs := g.end - g.first; reqs != 1 {
			viol("concurrent-callers-do-not-share-one-request", "group %d of %d overlapping Head() calls on one stale subjective head caused %d head requests, want exactly 1", id, g.n, reqs)
		}
	}
	_ = now
}

func TestC19(t *testing.T) {
	run := vk.NewRun("C19", "model_checking")
	defer run.Finish()
	run.SetRule("breadth-first exploration of event histories on the real Syncer (+ real store) over {Head() call, deliver next, advance 3s/40s/4000s, answer of the held trusted-head request {newer, same, error, soft+header} or of the held initialisation request {fresh tip, old header, error}, range answers} from stores {empty, fresh head, stale head, expired head}; Start itself with its (re)initialisation request held while the clock advances {none, 40s, 3000s, 4000s, 3000+4000s} and then answered {fresh tip, error}: a head adopted by Start is not expired when the answer arrives; oracle per completed Head() call using what was recorded when it was issued (subjective head, recency, expiry, request counter) and per state (single flight, monotone results); distinct = (store kind, head class, request delta, outcome)")
	run.Assume("recency threshold 30s (3 x blockTime 10s), trusting period 1h, NetworkHeadRequestTimeout 2s")

	var rc sCase
	replay, err := vk.ReplayCase(&rc)
	if replay && err != nil {
		t.Fatal(err)
	}
	exec := func(t *testing.T, cfg SCfg, hist []Ev) vk.Step[Ev] {
		var step vk.Step[Ev]
		run.Inflight(shardOf(t), sCase{cfg, hist})
		br := vk.Bubble(t, func() {
			w, err := NewSWorld(cfg)
			if err != nil {
				run.HarnessError("C19 world: %v", err)
				return
			}
			defer w.Close()
			// Start itself performs the first Head(): answer its requests honestly unless the store is
			// empty/expired, in which case Start is part of the scenario and fails or initialises.
			w.StartSyncer()
			if w.StartPanic != "" {
				run.Violate("C19/panic/start", sCase{cfg, hist}, "Start panicked: %s", w.StartPanic)
				return
			}
			if w.StartErr != nil {
				if cfg.HeadAgeS > 3600 && !cfg.FreshAfterS {
					// everybody only has expired heads: failing is what the statement demands; nothing may be adopted
					if got := w.StoredHeights(); len(got) != int(cfg.S) {
						run.Violate("C19/expired-head-adopted/start", sCase{cfg, hist}, "Start failed (%v) but the store changed: %v", w.StartErr, got)
					}
					run.Distinct("start-refuses-expired-peers")
					step.Key = "start-failed"
					return
				}
				run.Violate("C19/start-fails/"+cfgFeat(cfg), sCase{cfg, hist}, "Start: %v", w.StartErr)
				return
			}
			if cfg.HeadAgeS > 3600 && !cfg.FreshAfterS {
				run.Violate("C19/expired-head-adopted/start", sCase{cfg, hist}, "Start succeeded although the stored head and every trusted head are expired")
				return
			}
			metas := map[*spawned]*headMeta{}
			ngrp := 0
			for _, e := range hist {
				var m *headMeta
				if e.K == "headcall" {
					n, _ := w.getterHeadCalls()
					subj := w.subjective()
					m = &headMeta{subj: subj, headCalls: n, issuedAt: time.Now(), alone: true}
					if subj != nil {
						age := time.Since(subj.Time())
						m.recent = age <= c19Recency
						m.expired = age > c19Trusting
					}
					ngrp++
					m.grp = ngrp
					for _, c := range w.Calls {
						if c.Kind == "headcall" && !c.call.Done() {
							m.alone = false
							if om := metas[c]; om != nil {
								om.alone = false
								m.grp = om.grp
							}
						}
					}
				}
				if !w.Apply(e) {
					return
				}
				if m != nil {
					metas[w.Calls[len(w.Calls)-1]] = m
				}
				// close the books of Head() calls that completed during this event
				for c, cm := range metas {
					if !cm.closed && c.call.Done() {
						n, last := w.getterHeadCalls()
						cm.closed, cm.delta, cm.last, cm.closedAt = true, n-cm.headCalls, last, time.Now()
					}
				}
				w.collectHeads()
			}
			step.Key = w.StateKey()
			step.Next = c19Events(w)
			c19Oracle(run, w, cfg, hist, metas)
		})
		if br.Panic != "" {
			run.Violate("C19/panic/"+cfgFeat(cfg), sCase{cfg, hist}, "panic: %s\n%s", br.Panic, br.Stack)
		}
		if step.Key == "" {
			step.Skip = true
		}
		return step
	}
	if replay && rc.Cfg.HoldStart {
		var advs []int
		ans := "tip"
		for _, e := range rc.Hist {
			if e.K == "advance" {
				advs = append(advs, e.D)
			} else {
				ans = e.A
			}
		}
		c19StartHistory(t, run, rc.Cfg, advs, ans)
		fmt.Printf("replayed Start history [%s] on %v: violations=%d\n", evString(rc.Hist), rc.Cfg, run.Violations())
		return
	}
	if replay {
		s := exec(t, rc.Cfg, rc.Hist)
		fmt.Printf("replayed [%s] on %v: state=%s violations=%d\n", evString(rc.Hist), rc.Cfg, s.Key, run.Violations())
		return
	}
	depth := vk.Pick(run, 5, 7)
	run.Set("depth", depth)
	dl := vk.NewDeadline(vk.Pick(run, 10*time.Minute, 45*time.Minute))
	cfgs := []SCfg{
		{N: 10, S: 3, Batch: 1, Hold: true},                                    // fresh head
		{N: 10, S: 3, Batch: 1, Hold: true, HeadAgeS: 100, FreshAfterS: true},  // stale head at start
		{N: 10, S: 3, Batch: 1, Hold: true, HeadAgeS: 7200, FreshAfterS: true}, // expired head at start, peers are fresh
		{N: 10, S: 3, Batch: 1, Hold: true, HeadAgeS: 7200},                    // expired head, peers stuck on expired heads too
		{N: 10, S: 0, Batch: 1, Hold: true},                                    // empty store
		// stale head, and the trusted peers are not ahead at start: gossip then runs ahead of the peers
		{N: 8, S: 3, NetHead: 3, Batch: 1, Hold: true, HeadAgeS: 100, FreshAfterS: true},
	}
	states, trans := 0, 0
	// a write of the head the trusted peers reported stalls in the store while gossip moves on, and
	// then fails: nothing a Head() caller has been told may be taken back
	cfgs = append(cfgs, SCfg{N: 8, S: 3, NetHead: 3, Batch: 1, Hold: true, HeadAgeS: 100, FreshAfterS: true, HoldAppend: 4})
	// Start as part of the history: on an empty store and on a store whose head is expired, Start's own
	// (re)initialisation request is held, the clock advances, then the trusted peers answer
	for _, cfg := range []SCfg{{N: 10, S: 0, Batch: 1, Hold: true, HoldStart: true}, {N: 10, S: 3, Batch: 1, Hold: true, HeadAgeS: 7200, FreshAfterS: true, HoldStart: true}} {
		for _, advs := range [][]int{{}, {40}, {3000}, {4000}, {3000, 4000}} {
			for _, ans := range []string{"tip", "error"} {
				c19StartHistory(t, run, cfg, advs, ans)
				run.AddEval(1)
			}
		}
	}
	for _, cfg := range cfgs {
		cfg := cfg
		depth := depth
		if cfg.HoldAppend != 0 {
			depth += 2
		}
		r := vk.BFS(t, depth, vk.NumShards(), dl, func(t *testing.T, shard int, hist []Ev) vk.Step[Ev] {
			run.AddEval(1)
			return exec(t, cfg, hist)
		})
		states += r.States
		trans += r.Transitions
		if r.Capped {
			run.NotExhaustive("time budget hit in " + cfg.String())
		}
		for i := 0; i < len(r.Histories); i += 1 + len(r.Histories)/15 {
			k1 := exec(t, cfg, r.Histories[i]).Key
			k2 := exec(t, cfg, r.Histories[i]).Key
			if k1 != k2 {
				run.HarnessError("replay divergence on %v [%s]", cfg, evString(r.Histories[i]))
			}
			run.AddValidated(1)
		}
		if len(r.Histories) > 10 {
			run.Sample(map[string]any{"cfg": cfg.String(), "history": evString(r.Histories[len(r.Histories)/2])})
		}
	}
	run.AddStates(int64(states))
	run.AddTransitions(int64(trans))
	_ = context.Background
}

// c19StartHistory: Start with its (re)initialisation request to the trusted peers held, clock advances, then the
// answer. Whatever Start returns, a head it adopted must not be expired at the moment it was adopted.
func c19StartHistory(t *testing.T, run *vk.Run, cfg SCfg, advs []int, ans string) {
	hist := []Ev{}
	for _, a := range advs {
		hist = append(hist, Ev{K: "advance", D: a})
	}
	hist = append(hist, Ev{K: "answer", A: ans})
	feat := fmt.Sprintf("start-held,S%d,age=%d,advances=%v,answer=%s", cfg.S, cfg.HeadAgeS, advs, ans)
	br := vk.Bubble(t, func() {
		w, err := NewSWorld(cfg)
		if err != nil {
			run.HarnessError("C19 world: %v", err)
			return
		}
		defer w.Close()
		w.G.mu.Lock()
		w.G.Hold = true
		w.G.mu.Unlock()
		call := vk.Spawn(func() (*vk.H, error) {
			ctx, cancel := context.WithTimeout(context.Background(), 3*time.Hour)
			defer cancel()
			return nil, w.Sy.Start(ctx)
		})
		w.StartErr = errors.New("start pending")
		vk.Settle()
		if o := w.G.Oldest(); o == nil || o.Kind != "head" || o.Trusted != nil {
			run.HarnessError("C19 %s: Start did not issue a (re)initialisation request (oldest held call %v)", feat, o)
			return
		}
		for _, a := range advs {
			vk.Advance(time.Duration(a) * time.Second)
		}
		w.G.AnswerOldest(ans, 0)
		vk.Settle()
		if !call.Done() {
			run.Distinct(feat + "|start-still-pending")
			return
		}
		adoptedAt := time.Now()
		w.StartErr = call.Err
		if call.Panic != "" {
			run.Violate("C19/panic/"+feat, sCase{cfg, hist}, "Start panicked: %s", call.Panic)
			return
		}
		run.Distinct(fmt.Sprintf("%s|err=%v", feat, call.Err != nil))
		if call.Err != nil {
			return
		}
		if h := w.subjective(); h != nil && h.Time().Add(c19Trusting).Before(adoptedAt) {
			run.Violate("C19/expired-head-adopted/"+feat, sCase{cfg, hist}, "Start succeeded and adopted %v, which had expired (trusting period %v) by the time the trusted peers' answer arrived", h, c19Trusting)
		}
	})
	if br.Panic != "" {
		run.Violate("C19/panic/"+feat, sCase{cfg, hist}, "panic: %s\n%s", br.Panic, br.Stack)
	}
}
