package syncx

import (
	"context"
	"errors"
	"fmt"
	"math/bits"
	"testing"
	"time"

	"github.com/celestiaorg/go-header"

	"verif/vk"
)

type c15Case struct {
	S      uint64 `json:"subjective_head"`
	D      uint64 `json:"distance"`
	R      uint64 `json:"trust_range"`
	Forged bool   `json:"forged"`
	// FailAt: 1-based index of the intermediate fetch that fails (0 = none)
	FailAt int `json:"fail_at"`
	// NotFound: the failing fetch answers header.ErrNotFound instead of a generic error
	NotFound bool `json:"not_found,omitempty"`
	// Persist: every fetch from the FailAt-th on fails (the getter lost the headers for good)
	Persist bool `json:"persist,omitempty"`
	// SoftAdj: the header type reports a *soft* failure when the subjective head verifies the header
	// right above it (a type is free to do so); no verifiable path to any candidate exists then
	SoftAdj bool `json:"soft_adjacent,omitempty"`
}

func (c c15Case) String() string {
	return fmt.Sprintf("head=%d distance=%d R=%d forged=%v failAt=%d notfound=%v persist=%v", c.S, c.D, c.R, c.Forged, c.FailAt, c.NotFound, c.Persist)
}

type c15Out struct {
	err     error
	pan     string
	fetches int
	pending []string
	done    bool
	stored  []uint64
	wHashes map[string]bool
	cand    string
	// second delivery of the same candidate after the getter recovered (only for one-off faults)
	redone bool
	reErr  error
	rePan  string
	// softAdjCalls: how often the adjacent soft failure was actually reported
	softAdjCalls int
}

func c15Exec(t *testing.T, run *vk.Run, c c15Case) (o c15Out, ok bool) {
	cfg := SCfg{N: int(c.S + c.D + 2), S: c.S, R: c.R, Batch: 1, Hold: false}
	run.Inflight(shardOf(t), c)
	br := vk.Bubble(t, func() {
		w, err := NewSWorld(cfg)
		if err != nil {
			run.HarnessError("C15 world: %v", err)
			return
		}
		defer w.Close()
		w.StartSyncer()
		if w.StartErr != nil || w.StartPanic != "" {
			run.HarnessError("C15 start: %v %s", w.StartErr, w.StartPanic)
			return
		}
		n := 0
		budget := int(c.D)*(bits.Len64(c.D)+2) + 4
		w.G.Policy = func(hc *heldCall) *getterResp {
			if hc.Kind != "getbyheight" {
				return nil
			}
			n++
			if n > budget {
				return &getterResp{err: fmt.Errorf("vk: fetch budget %d exceeded", budget)}
			}
			if c.FailAt != 0 && (n == c.FailAt || (c.Persist && n > c.FailAt)) {
				if c.NotFound {
					return &getterResp{err: header.ErrNotFound}
				}
				return &getterResp{err: errGetter}
			}
			return nil
		}
		if c.SoftAdj {
			subj := w.C[c.S]
			subj.VerifyHook = func(tr, u *vk.H) error {
				if u.Ht == tr.Ht+1 {
					o.softAdjCalls++
					return &header.VerifyError{Reason: errSoftAdjacent, SoftFailure: true}
				}
				plain := *tr
				plain.VerifyHook = nil
				return plain.Verify(u)
			}
		}
		cand := w.C[c.S+c.D]
		if c.Forged {
			cand = w.Evil[c.S+c.D]
		}
		o.cand = cand.Hash().String()
		fn := w.Sub.verifier()
		call := vk.Spawn(func() (*vk.H, error) {
			ctx, cancel := context.WithTimeout(context.Background(), time.Minute)
			defer cancel()
			return nil, fn(ctx, cand)
		})
		for i := 0; i < 70 && !call.Done(); i++ {
			vk.Advance(time.Second)
		}
		o.done = call.Done()
		o.err, o.pan = call.Err, call.Panic
		o.fetches = n
		o.pending = w.Sy.VerifPendingHashes()
		o.stored = w.StoredHeights()
		if c.FailAt != 0 && !c.Persist && o.done && o.pan == "" {
			// the getter has recovered: the same candidate is gossiped again (by another peer)
			budget += n
			call2 := vk.Spawn(func() (*vk.H, error) {
				ctx, cancel := context.WithTimeout(context.Background(), time.Minute)
				defer cancel()
				return nil, fn(ctx, cand)
			})
			for i := 0; i < 70 && !call2.Done(); i++ {
				vk.Advance(time.Second)
			}
			o.redone, o.reErr, o.rePan = call2.Done(), call2.Err, call2.Panic
		}
		o.wHashes = map[string]bool{}
		for _, h := range w.C[1:] {
			o.wHashes[h.Hash().String()] = true
		}
		ok = true
	})
	if br.Panic != "" {
		run.HarnessError("C15 bubble panic on %s: %s", c, br.Panic)
		ok = false
	}
	return
}

func TestC15(t *testing.T) {
	run := vk.NewRun("C15", "model_checking")
	defer run.Finish()
	run.SetRule("real Syncer gossip verifier with a real store: every (subjective head in {1,5}, distance d = 2..D, trust range R = 1..d and unlimited, candidate honest | forged, failing intermediate fetch k = none | 1..(number of fetches of the fault-free run), failing with a generic error | ErrNotFound, once | for every fetch from k on) is delivered; plus a header type reporting a soft failure for the header adjacent to the subjective head (d = 1..6, R in {1, 2, unlimited}): terminates within the bound and refuses; oracle: accept iff honest and no needed fetch failed, refusal is an error and the candidate is neither pending nor stored, only chain headers are promoted, fetches <= d*(floor(log2 d)+2); distinct = (d, R, forged, fault position class, verdict)")
	run.Assume("the getter is trusted and honest apart from injected fetch errors")

	var rc c15Case
	if is, err := vk.ReplayCase(&rc); is {
		if err != nil {
			t.Fatal(err)
		}
		if o, ok := c15Exec(t, run, rc); ok {
			c15Check(run, rc, o, -1)
			fmt.Printf("replayed %s: err=%v fetches=%d violations=%d\n", rc, o.err, o.fetches, run.Violations())
		}
		return
	}
	maxD := uint64(vk.Pick(run, 12, 24))
	run.Set("max_distance", maxD)
	dl := vk.NewDeadline(vk.Pick(run, 10*time.Minute, 45*time.Minute))
	type base struct {
		c c15Case
	}
	var bases []c15Case
	for _, s := range []uint64{1, 5} {
		for d := uint64(2); d <= maxD; d++ {
			rs := []uint64{0}
			for r := uint64(1); r <= d; r++ {
				rs = append(rs, r)
			}
			for _, r := range rs {
				for _, forged := range []bool{false, true} {
					bases = append(bases, c15Case{S: s, D: d, R: r, Forged: forged})
				}
			}
		}
	}
	nPlain := len(bases)
	for _, s := range []uint64{1, 5} {
		for d := uint64(1); d <= 6; d++ {
			for _, r := range []uint64{1, 2, 0} {
				bases = append(bases, c15Case{S: s, D: d, R: r, SoftAdj: true})
			}
		}
	}
	_ = nPlain
	q := vk.NewWorkQueue(len(bases))
	vk.Shards(t, vk.NumShards(), func(t *testing.T, shard int) {
		for {
			if dl.Hit() {
				run.NotExhaustive("time budget hit")
				return
			}
			i, ok := q.Next()
			if !ok {
				return
			}
			b := bases[i]
			o, ok2 := c15Exec(t, run, b)
			if !ok2 {
				continue
			}
			run.AddEval(1)
			c15Check(run, b, o, -1)
			if b.SoftAdj {
				continue
			}
			if i%41 == 0 {
				run.Sample(b.String() + fmt.Sprintf(" -> fetches=%d err=%v", o.fetches, o.err != nil))
			}
			for k := 1; k <= o.fetches; k++ {
				for mode := 0; mode < 4; mode++ {
					fc := b
					fc.FailAt, fc.NotFound, fc.Persist = k, mode&1 != 0, mode&2 != 0
					fo, ok3 := c15Exec(t, run, fc)
					if !ok3 {
						continue
					}
					run.AddEval(1)
					c15Check(run, fc, fo, o.fetches)
				}
			}
		}
	})
	for i := 0; i < len(bases); i += 1 + len(bases)/10 {
		o1, ok1 := c15Exec(t, run, bases[i])
		o2, ok2 := c15Exec(t, run, bases[i])
		if ok1 && ok2 && ((o1.err == nil) != (o2.err == nil) || o1.fetches != o2.fetches) {
			run.HarnessError("replay divergence on %s", bases[i])
		}
		run.AddValidated(1)
	}
}

var errSoftAdjacent = errors.New("vk: header type rejects the adjacent header softly")

func c15Check(run *vk.Run, c c15Case, o c15Out, baseFetches int) {
	if c.SoftAdj {
		c15CheckSoftAdj(run, c, o)
		return
	}
	fault := "none"
	if c.FailAt != 0 {
		fault = "fetch-error"
		if c.NotFound {
			fault = "fetch-notfound"
		}
		if c.Persist {
			fault += "-persistent"
		}
	}
	rel := "R<d"
	if c.R == 0 || c.R >= c.D {
		rel = "R>=d"
	}
	if c.R == 1 {
		rel = "R=1"
	}
	feat := fmt.Sprintf("forged=%v,%s,fault=%s", c.Forged, rel, fault)
	viol := func(clause, format string, a ...any) {
		run.Violate("C15/"+clause+"/"+feat, c, "%s: %s", c, fmt.Sprintf(format, a...))
	}
	run.Distinct(fmt.Sprintf("d=%d,R=%d,%s|accepted=%v", c.D, c.R, feat, o.err == nil))
	if !o.done {
		viol("does-not-terminate", "the verifier did not return within a minute of virtual time (%d fetches so far)", o.fetches)
		return
	}
	if o.pan != "" {
		viol("panic", "%s", o.pan)
		return
	}
	bound := int(c.D) * (bits.Len64(c.D) + 1)
	if o.fetches > bound {
		viol("too-many-fetches", "%d intermediate fetches for distance %d (bound %d)", o.fetches, c.D, bound)
	}
	wantAccept := !c.Forged && (c.FailAt == 0 || (baseFetches >= 0 && c.FailAt > baseFetches))
	if wantAccept && o.err != nil {
		viol("valid-head-refused", "a verifiable path exists but the head was refused: %v", o.err)
	}
	if !wantAccept && o.err == nil {
		viol("unverifiable-head-accepted", "accepted although %s", map[bool]string{true: "the candidate is forged", false: "a needed intermediate fetch failed"}[c.Forged])
	}
	if c.FailAt != 0 && !c.Persist && baseFetches >= 0 && c.FailAt <= baseFetches {
		switch {
		case !o.redone:
			viol("redelivery-does-not-terminate", "the candidate was refused because fetch %d failed; delivered again after the getter recovered, the verifier did not return within a minute", c.FailAt)
		case o.rePan != "":
			viol("panic", "redelivery: %s", o.rePan)
		case !c.Forged && o.reErr != nil:
			viol("valid-head-refused-after-recovery", "the candidate was refused because fetch %d failed; delivered again after the getter recovered it is still refused: %v", c.FailAt, o.reErr)
		case c.Forged && o.reErr == nil:
			viol("unverifiable-head-accepted", "the forged candidate was accepted on redelivery")
		}
	}
	inPending := false
	for _, p := range o.pending {
		if p == o.cand {
			inPending = true
		}
		if !o.wHashes[p] {
			viol("unverified-header-promoted", "pending set holds %s which is not a header of the chain", p[:12])
		}
	}
	if o.err != nil && inPending {
		viol("refused-head-became-target", "the refused candidate is in the pending set")
	}
	if o.err == nil && !inPending {
		// accepted heads become the sync target unless already synced
		last := uint64(0)
		if len(o.stored) > 0 {
			last = o.stored[len(o.stored)-1]
		}
		if last < c.S+c.D {
			viol("accepted-head-not-target", "accepted but neither pending nor stored (store up to %d)", last)
		}
	}
}

// c15CheckSoftAdj: the type reports the header right above the subjective head as a soft failure. Whatever the
// distance, the search must terminate within the fetch bound, and a candidate whose path ends in a failed
// adjacent verification is refused and not promoted.
func c15CheckSoftAdj(run *vk.Run, c c15Case, o c15Out) {
	feat := fmt.Sprintf("forged=%v,soft-adjacent,d=%d", c.Forged, c.D)
	viol := func(clause, format string, a ...any) {
		run.Violate("C15/"+clause+"/"+feat, c, "%s: %s", c, fmt.Sprintf(format, a...))
	}
	run.Distinct(fmt.Sprintf("d=%d,R=%d,%s|accepted=%v|hook=%v", c.D, c.R, feat, o.err == nil, o.softAdjCalls > 0))
	if !o.done {
		viol("does-not-terminate", "the verifier did not return within a minute of virtual time (%d fetches so far)", o.fetches)
		return
	}
	if o.pan != "" {
		viol("panic", "%s", o.pan)
		return
	}
	bound := int(c.D)*(bits.Len64(c.D)+1) + 2
	if o.fetches > bound {
		viol("too-many-fetches", "%d intermediate fetches for distance %d (bound %d): the search does not end on a soft adjacent failure", o.fetches, c.D, bound)
	}
	if o.softAdjCalls == 0 {
		return // the path never reached the adjacent header (trust range covers the distance)
	}
	if o.err == nil {
		viol("unverifiable-head-accepted", "accepted although the adjacent verification on the only path failed")
	}
	for _, p := range o.pending {
		if p == o.cand {
			viol("refused-head-became-target", "the refused candidate is in the pending set")
		}
	}
}
