package vk

import (
	"context"
	"crypto/sha256"
	"encoding/hex"
	"errors"
	"fmt"
	"sort"
	"sync"

	"github.com/ipfs/go-datastore"
	contextds "github.com/ipfs/go-datastore/context"
	"github.com/ipfs/go-datastore/query"
)

// ErrInjected is the error returned by injected write faults.
var ErrInjected = errors.New("vk: injected datastore write fault")

// WOp is one key mutation.
type WOp struct {
	Del bool   `json:"del,omitempty"`
	Key string `json:"key"`
	Val []byte `json:"val,omitempty"`
}

// LogEntry is one atomic write of the datastore: a direct Put/Delete or a whole Batch.Commit.
type LogEntry struct {
	Kind string `json:"kind"` // put | delete | commit
	Ops  []WOp  `json:"ops"`
}

// LogDS is an in-memory datastore.Batching (optionally with read-only snapshot transactions)
// that records its commit log and can fail chosen write operations.
type LogDS struct {
	mu   sync.Mutex
	data map[string][]byte
	log  []LogEntry

	// write-attempt counter: direct put, direct delete, batch creation and batch commit
	// are each one "write"; attempts numbered from 0.
	writes   int
	failFrom int
	failN    int
	// FailKinds restricts injected faults to these kinds (nil = all): put, delete, batch, commit
	FailKinds map[string]bool

	Reads   int
	TxnMode bool
	// OnWrite, when set, is called (outside the lock) before each write attempt with its
	// number and kind; used by harnesses that want to act at write boundaries.
	OnWrite func(n int, kind string)
	// OnOp, when set, is called at the start of every datastore operation (read or write);
	// the schedule explorer makes these scheduling points.
	OnOp func(kind string)
}

func NewLogDS() *LogDS {
	return &LogDS{data: map[string][]byte{}, failFrom: -1}
}

// FromImage builds a datastore holding a copy of the image.
func FromImage(img map[string][]byte) *LogDS {
	d := NewLogDS()
	for k, v := range img {
		d.data[k] = append([]byte(nil), v...)
	}
	return d
}

// Wrap returns the datastore to hand to the Store: the LogDS itself (plain flavour) or
// contextds.WrapDatastore(txn-capable LogDS) (context-aware flavour).
func (d *LogDS) Wrap(txn bool) datastore.Batching {
	d.TxnMode = txn
	if txn {
		return contextds.WrapDatastore(&txnDS{d}).(datastore.Batching)
	}
	return d
}

// FailWrites makes write attempts number from..from+n-1 fail (from<0 disables).
func (d *LogDS) FailWrites(from, n int) {
	d.mu.Lock()
	d.failFrom, d.failN = from, n
	d.mu.Unlock()
}

func (d *LogDS) Writes() int { d.mu.Lock(); defer d.mu.Unlock(); return d.writes }

func (d *LogDS) op(kind string) {
	if f := d.OnOp; f != nil {
		f(kind)
	}
}

func (d *LogDS) attempt(kind string) error {
	d.op(kind)
	d.mu.Lock()
	n := d.writes
	d.writes++
	fail := d.failFrom >= 0 && n >= d.failFrom && n < d.failFrom+d.failN && (d.FailKinds == nil || d.FailKinds[kind])
	cb := d.OnWrite
	d.mu.Unlock()
	if cb != nil {
		cb(n, kind)
	}
	if fail {
		return fmt.Errorf("%w (write #%d, %s)", ErrInjected, n, kind)
	}
	return nil
}

func (d *LogDS) apply(e LogEntry) {
	for _, op := range e.Ops {
		if op.Del {
			delete(d.data, op.Key)
		} else {
			d.data[op.Key] = append([]byte(nil), op.Val...)
		}
	}
	d.log = append(d.log, e)
}

func (d *LogDS) Put(ctx context.Context, key datastore.Key, value []byte) error {
	if err := d.attempt("put"); err != nil {
		return err
	}
	d.mu.Lock()
	defer d.mu.Unlock()
	d.apply(LogEntry{Kind: "put", Ops: []WOp{{Key: key.String(), Val: append([]byte(nil), value...)}}})
	return nil
}

func (d *LogDS) Delete(ctx context.Context, key datastore.Key) error {
	if err := d.attempt("delete"); err != nil {
		return err
	}
	d.mu.Lock()
	defer d.mu.Unlock()
	d.apply(LogEntry{Kind: "delete", Ops: []WOp{{Del: true, Key: key.String()}}})
	return nil
}

func (d *LogDS) Get(ctx context.Context, key datastore.Key) ([]byte, error) {
	d.op("get")
	d.mu.Lock()
	defer d.mu.Unlock()
	d.Reads++
	v, ok := d.data[key.String()]
	if !ok {
		return nil, datastore.ErrNotFound
	}
	return append([]byte(nil), v...), nil
}

func (d *LogDS) Has(ctx context.Context, key datastore.Key) (bool, error) {
	d.op("has")
	d.mu.Lock()
	defer d.mu.Unlock()
	d.Reads++
	_, ok := d.data[key.String()]
	return ok, nil
}

func (d *LogDS) GetSize(ctx context.Context, key datastore.Key) (int, error) {
	d.mu.Lock()
	defer d.mu.Unlock()
	v, ok := d.data[key.String()]
	if !ok {
		return -1, datastore.ErrNotFound
	}
	return len(v), nil
}

func (d *LogDS) Query(ctx context.Context, q query.Query) (query.Results, error) {
	d.mu.Lock()
	es := make([]query.Entry, 0, len(d.data))
	for k, v := range d.data {
		es = append(es, query.Entry{Key: k, Value: append([]byte(nil), v...), Size: len(v)})
	}
	d.mu.Unlock()
	sort.Slice(es, func(i, j int) bool { return es[i].Key < es[j].Key })
	return query.NaiveQueryApply(q, query.ResultsWithEntries(q, es)), nil
}

func (d *LogDS) Sync(ctx context.Context, prefix datastore.Key) error { return nil }
func (d *LogDS) Close() error                                         { return nil }

func (d *LogDS) Batch(ctx context.Context) (datastore.Batch, error) {
	if err := d.attempt("batch"); err != nil {
		return nil, err
	}
	return &logBatch{d: d}, nil
}

type logBatch struct {
	d   *LogDS
	ops []WOp
}

func (b *logBatch) Put(ctx context.Context, key datastore.Key, value []byte) error {
	b.ops = append(b.ops, WOp{Key: key.String(), Val: append([]byte(nil), value...)})
	return nil
}

func (b *logBatch) Delete(ctx context.Context, key datastore.Key) error {
	b.ops = append(b.ops, WOp{Del: true, Key: key.String()})
	return nil
}

func (b *logBatch) Commit(ctx context.Context) error {
	if len(b.ops) == 0 {
		return nil
	}
	if err := b.d.attempt("commit"); err != nil {
		return err
	}
	b.d.mu.Lock()
	defer b.d.mu.Unlock()
	b.d.apply(LogEntry{Kind: "commit", Ops: b.ops})
	b.ops = nil
	return nil
}

// txnDS adds read-only snapshot transactions.
type txnDS struct{ *LogDS }

func (t *txnDS) NewTransaction(ctx context.Context, readOnly bool) (datastore.Txn, error) {
	if !readOnly {
		return nil, errors.New("vk: only read-only transactions are modelled")
	}
	// the moment the snapshot is taken is a scheduling point of the schedule explorer
	t.op("txn")
	t.mu.Lock()
	defer t.mu.Unlock()
	snap := make(map[string][]byte, len(t.data))
	for k, v := range t.data {
		snap[k] = v
	}
	return &snapTxn{d: t.LogDS, snap: snap}, nil
}

type snapTxn struct {
	d    *LogDS
	snap map[string][]byte
	done bool
}

func (s *snapTxn) Get(ctx context.Context, key datastore.Key) ([]byte, error) {
	s.d.mu.Lock()
	s.d.Reads++
	s.d.mu.Unlock()
	v, ok := s.snap[key.String()]
	if !ok {
		return nil, datastore.ErrNotFound
	}
	return append([]byte(nil), v...), nil
}
func (s *snapTxn) Has(ctx context.Context, key datastore.Key) (bool, error) {
	_, ok := s.snap[key.String()]
	return ok, nil
}
func (s *snapTxn) GetSize(ctx context.Context, key datastore.Key) (int, error) {
	v, ok := s.snap[key.String()]
	if !ok {
		return -1, datastore.ErrNotFound
	}
	return len(v), nil
}
func (s *snapTxn) Query(ctx context.Context, q query.Query) (query.Results, error) {
	es := make([]query.Entry, 0, len(s.snap))
	for k, v := range s.snap {
		es = append(es, query.Entry{Key: k, Value: v, Size: len(v)})
	}
	sort.Slice(es, func(i, j int) bool { return es[i].Key < es[j].Key })
	return query.NaiveQueryApply(q, query.ResultsWithEntries(q, es)), nil
}
func (s *snapTxn) Put(ctx context.Context, key datastore.Key, value []byte) error {
	return errors.New("vk: read-only transaction")
}
func (s *snapTxn) Delete(ctx context.Context, key datastore.Key) error {
	return errors.New("vk: read-only transaction")
}
func (s *snapTxn) Commit(ctx context.Context) error { return nil }
func (s *snapTxn) Discard(ctx context.Context)      { s.done = true }

// Image returns a copy of the current content.
func (d *LogDS) Image() map[string][]byte {
	d.mu.Lock()
	defer d.mu.Unlock()
	out := make(map[string][]byte, len(d.data))
	for k, v := range d.data {
		out[k] = append([]byte(nil), v...)
	}
	return out
}

// Log returns a copy of the commit log.
func (d *LogDS) Log() []LogEntry {
	d.mu.Lock()
	defer d.mu.Unlock()
	return append([]LogEntry(nil), d.log...)
}

// ImageAt rebuilds the image after the first k log entries, starting from base.
func ImageAt(base map[string][]byte, log []LogEntry, k int) map[string][]byte {
	img := make(map[string][]byte, len(base))
	for key, v := range base {
		img[key] = v
	}
	for _, e := range log[:k] {
		for _, op := range e.Ops {
			if op.Del {
				delete(img, op.Key)
			} else {
				img[op.Key] = op.Val
			}
		}
	}
	return img
}

// ImageHash is a canonical digest of an image.
func ImageHash(img map[string][]byte) string {
	keys := make([]string, 0, len(img))
	for k := range img {
		keys = append(keys, k)
	}
	sort.Strings(keys)
	h := sha256.New()
	for _, k := range keys {
		fmt.Fprintf(h, "%d:%s=%d:", len(k), k, len(img[k]))
		h.Write(img[k])
	}
	return hex.EncodeToString(h.Sum(nil)[:8])
}

// Has reports raw presence of a key.
func (d *LogDS) RawHas(key string) bool {
	d.mu.Lock()
	defer d.mu.Unlock()
	_, ok := d.data[key]
	return ok
}
