package vk

import (
	"bytes"
	"crypto/sha256"
	"encoding/json"
	"errors"
	"fmt"
	"sync/atomic"
	"time"

	"github.com/celestiaorg/go-header"
)

// Epoch is the synctest bubble start time (2000-01-01 UTC).
var Epoch = time.Date(2000, 1, 1, 0, 0, 0, 0, time.UTC)

var (
	ErrBadLink    = errors.New("vk: adjacent header does not link to trusted hash")
	ErrBadSig     = errors.New("vk: header not signed by the trusted chain's validators")
	ErrTooFar     = errors.New("vk: not enough validator overlap (beyond trust range)")
	ErrBadPayload = errors.New("vk: header fails stateless validation")
)

// H is the harness header type: real hash links, a light-client-like Verify.
//
// Type-level Verify(trusted=this, untrusted):
//   - adjacent: nil iff untrusted.Prev == trusted.Hash() and signatures match,
//     otherwise a plain error (go-header classifies adjacent failures as hard);
//   - non-adjacent: nil iff signatures match and distance <= trusted.R (R==0: unlimited),
//     otherwise a plain error (go-header classifies non-adjacent failures as soft).
//
// VerifyHook, when set on the trusted header, replaces this (used by C01/C02).
type H struct {
	Chain string      `json:"c"`
	Ht    uint64      `json:"h"`
	TNano int64       `json:"t"`
	Prev  header.Hash `json:"p"`
	Sig   string      `json:"s"`
	R     uint64      `json:"r"`
	Salt  uint64      `json:"x,omitempty"`
	Bad   bool        `json:"bad,omitempty"` // fails Validate()

	VerifyHook func(trusted, untrusted *H) error `json:"-"`
	hash       header.Hash
}

func (h *H) New() *H                 { return new(H) }
func (h *H) IsZero() bool            { return h == nil }
func (h *H) ChainID() string         { return h.Chain }
func (h *H) Height() uint64          { return h.Ht }
func (h *H) Time() time.Time         { return time.Unix(0, h.TNano).UTC() }
func (h *H) LastHeader() header.Hash { return h.Prev }

func (h *H) Hash() header.Hash {
	if h.hash == nil {
		b, _ := json.Marshal(h)
		s := sha256.Sum256(b)
		h.hash = s[:]
	}
	return h.hash
}

func (h *H) Verify(u *H) error {
	if h.VerifyHook != nil {
		return h.VerifyHook(h, u)
	}
	if u.Sig != h.Sig {
		return ErrBadSig
	}
	if u.Ht == h.Ht+1 {
		if !bytes.Equal(u.Prev, h.Hash()) {
			return ErrBadLink
		}
		return nil
	}
	if h.R != 0 && u.Ht > h.Ht && u.Ht-h.Ht > h.R {
		return ErrTooFar
	}
	return nil
}

func (h *H) Validate() error {
	if h.Bad {
		return ErrBadPayload
	}
	return nil
}

func (h *H) MarshalBinary() ([]byte, error) { return json.Marshal(h) }

func (h *H) UnmarshalBinary(b []byte) error {
	if bytes.HasPrefix(b, []byte("BOOM")) {
		panic("vk: UnmarshalBinary panics on BOOM payload")
	}
	if MergeDecode.Load() {
		// the common json.Unmarshal(b, h) idiom: fields absent from the payload keep whatever the
		// receiver held before (a correct caller always passes a fresh header)
		dec := json.NewDecoder(bytes.NewReader(b))
		dec.DisallowUnknownFields()
		if err := dec.Decode(h); err != nil {
			return err
		}
		if dec.More() {
			return errors.New("vk: trailing data after header")
		}
		h.hash = nil
		h.Hash()
		return nil
	}
	var n H
	dec := json.NewDecoder(bytes.NewReader(b))
	dec.DisallowUnknownFields()
	if err := dec.Decode(&n); err != nil {
		return err
	}
	if dec.More() {
		return errors.New("vk: trailing data after header")
	}
	*h = n
	h.hash = nil
	h.Hash()
	return nil
}

// MergeDecode switches UnmarshalBinary to decoding straight into the receiver.
var MergeDecode atomic.Bool

func (h *H) String() string {
	if h == nil {
		return "<zero>"
	}
	return fmt.Sprintf("H(%s@%d %x)", h.Chain, h.Ht, h.Hash()[:3])
}

// Clone returns a deep copy sharing nothing (hash cache reset).
func (h *H) Clone() *H {
	if h == nil {
		return nil
	}
	n := *h
	n.Prev = append(header.Hash(nil), h.Prev...)
	n.hash = nil
	return &n
}

// ChainSpec describes an honest chain.
type ChainSpec struct {
	ChainID string
	Sig     string
	N       int           // heights 1..N
	Start   time.Time     // time of height 1
	Step    time.Duration // spacing
	R       uint64        // trust range (0 = unlimited)
	Salt    uint64
	// Steps, when non-nil, overrides Step per height (Steps[i] = time(i+2)-time(i+1)).
	Steps []time.Duration
}

// Chain is c[1..N]; index 0 is nil.
type Chain []*H

// At returns c[h] or nil.
func (c Chain) At(h uint64) *H {
	if h == 0 || h >= uint64(len(c)) {
		return nil
	}
	return c[h]
}

func (c Chain) Slice(lo, hi uint64) []*H { // inclusive
	if lo > hi {
		return nil
	}
	return append([]*H(nil), c[lo:hi+1]...)
}

func (c Chain) N() uint64 { return uint64(len(c) - 1) }

// GenChain generates an honest hash-linked chain.
func GenChain(s ChainSpec) Chain {
	if s.ChainID == "" {
		s.ChainID = "vk"
	}
	if s.Sig == "" {
		s.Sig = "honest"
	}
	if s.Start.IsZero() {
		s.Start = Epoch.Add(-time.Duration(s.N) * s.Step)
	}
	c := make(Chain, s.N+1)
	t := s.Start
	var prev *H
	for i := 1; i <= s.N; i++ {
		h := &H{Chain: s.ChainID, Ht: uint64(i), TNano: t.UnixNano(), Sig: s.Sig, R: s.R, Salt: s.Salt}
		if prev != nil {
			h.Prev = prev.Hash()
		}
		h.Hash()
		c[i] = h
		prev = h
		step := s.Step
		if s.Steps != nil && i-1 < len(s.Steps) {
			step = s.Steps[i-1]
		}
		t = t.Add(step)
	}
	return c
}

// Fork builds an attacker chain that shares c[1..at] and diverges afterwards up to height n,
// signed with sig (use the honest sig for an equivocation fork, another for a forged chain).
func (c Chain) Fork(at uint64, n uint64, sig string, salt uint64) Chain {
	f := make(Chain, n+1)
	copy(f, c[:at+1])
	prev := c[at]
	for i := at + 1; i <= n; i++ {
		var t int64
		if ref := c.At(i); ref != nil {
			t = ref.TNano
		} else {
			t = prev.TNano + 1
		}
		h := &H{Chain: prev.Chain, Ht: i, TNano: t, Sig: sig, R: prev.R, Salt: salt, Prev: prev.Hash()}
		h.Hash()
		f[i] = h
		prev = h
	}
	return f
}

// Heights renders a slice of headers as heights (for messages).
func Heights(hs []*H) []uint64 {
	out := make([]uint64, len(hs))
	for i, h := range hs {
		if h != nil {
			out[i] = h.Ht
		}
	}
	return out
}
