package vk

import (
	"context"
	"fmt"
	"os"
	"runtime"
	"runtime/debug"
	"strconv"
	"strings"
	"sync"
	"sync/atomic"
	"testing"
	"testing/synctest"
	"time"
)

// WatchdogLimit is the real-time budget of one bubble.
var WatchdogLimit = watchdogFromEnv()

func watchdogFromEnv() time.Duration {
	if v, err := strconv.Atoi(os.Getenv("VERIF_WATCHDOG_S")); err == nil && v > 0 {
		return time.Duration(v) * time.Second
	}
	return 120 * time.Second
}

// BubbleResult describes how a bubble ended.
type BubbleResult struct {
	// Panic is the recovered panic value of the root function ("" if none).
	Panic string
	// Stack of the panic, trimmed.
	Stack string
	// Deadlock is set when the bubble ended with goroutines still durably blocked
	// (leak / lost wake-up), as reported by synctest.
	Deadlock bool
}

func (b BubbleResult) OK() bool { return b.Panic == "" && !b.Deadlock }

// Bubble runs f in a fresh synctest bubble (virtual time starting at Epoch).
func Bubble(t *testing.T, f func()) (res BubbleResult) {
	defer func() {
		if r := recover(); r != nil {
			s := fmt.Sprint(r)
			if strings.HasPrefix(s, "deadlock:") {
				res.Deadlock = true
				return
			}
			res.Panic = "outer: " + s
		}
	}()
	// real-time watchdog (this goroutine is outside the bubble): a case that spins without ever
	// becoming quiescent would otherwise run until the test binary's timeout
	wd := time.AfterFunc(WatchdogLimit, func() {
		fmt.Fprintln(os.Stderr, "WATCHDOG: a single bubble ran longer than", WatchdogLimit, "of real time (livelock or runaway loop)")
		if os.Getenv("VERIF_WATCHDOG_DUMP") != "" {
			buf := make([]byte, 4<<20)
			os.Stderr.Write(buf[:runtime.Stack(buf, true)])
		}
		os.Exit(3)
	})
	defer wd.Stop()
	synctest.Test(t, func(t *testing.T) {
		defer func() {
			if r := recover(); r != nil {
				res.Panic = fmt.Sprint(r)
				res.Stack = trimStack(debug.Stack())
			}
		}()
		f()
	})
	return res
}

func trimStack(b []byte) string {
	s := string(b)
	if len(s) > 3000 {
		s = s[:3000]
	}
	return s
}

// Settle waits until every goroutine of the bubble is durably blocked.
func Settle() { synctest.Wait() }

// Advance sleeps d of virtual time and settles.
func Advance(d time.Duration) {
	time.Sleep(d)
	synctest.Wait()
}

// Call is the outcome of a harness-spawned call.
type Call[T any] struct {
	done  atomic.Bool
	Val   T
	Err   error
	Panic string
	Stack string
	ch    chan struct{}
}

func (c *Call[T]) Done() bool { return c.done.Load() }

// Wait blocks (in bubble time) until the call is done.
func (c *Call[T]) Wait() { <-c.ch }

// Spawn runs f in a new goroutine capturing its result and any panic.
func Spawn[T any](f func() (T, error)) *Call[T] {
	c := &Call[T]{ch: make(chan struct{})}
	go func() {
		defer func() {
			if r := recover(); r != nil {
				c.Panic = fmt.Sprint(r)
				c.Stack = trimStack(debug.Stack())
			}
			c.done.Store(true)
			close(c.ch)
		}()
		c.Val, c.Err = f()
	}()
	return c
}

// Try runs f synchronously capturing a panic.
func Try[T any](f func() (T, error)) (v T, err error, pan string) {
	defer func() {
		if r := recover(); r != nil {
			pan = fmt.Sprint(r)
		}
	}()
	v, err = f()
	return
}

// TryErr runs f synchronously capturing a panic.
func TryErr(f func() error) (err error, pan string) {
	defer func() {
		if r := recover(); r != nil {
			pan = fmt.Sprint(r) + "\n" + trimStack(debug.Stack())
		}
	}()
	err = f()
	return
}

// Horizon returns a context with a (virtual) deadline d from now.
func Horizon(d time.Duration) (context.Context, context.CancelFunc) {
	return context.WithTimeout(context.Background(), d)
}

// Shards runs fn(shard) for shard in 0..n-1 as parallel subtests and waits for them.
func Shards(t *testing.T, n int, fn func(t *testing.T, shard int)) {
	if n < 1 {
		n = 1
	}
	t.Run("shards", func(t *testing.T) {
		for i := 0; i < n; i++ {
			i := i
			t.Run(fmt.Sprintf("s%d", i), func(t *testing.T) {
				t.Parallel()
				fn(t, i)
			})
		}
	})
}

// NumShards is the default worker count.
func NumShards() int {
	n := runtime.GOMAXPROCS(0)
	if n > 16 {
		n = 16
	}
	return n
}

// WorkQueue hands out indices 0..n-1 to concurrent workers.
type WorkQueue struct {
	next atomic.Int64
	n    int64
}

func NewWorkQueue(n int) *WorkQueue { return &WorkQueue{n: int64(n)} }
func (q *WorkQueue) Next() (int, bool) {
	i := q.next.Add(1) - 1
	if i >= q.n {
		return 0, false
	}
	return int(i), true
}

// Deadline is an internal budget: checks stop exploring (exhaustive:false) when it passes.
type Deadline struct {
	at   time.Time
	once sync.Once
	hit  atomic.Bool
}

// NewDeadline uses real time (must be created outside a bubble).
func NewDeadline(d time.Duration) *Deadline { return &Deadline{at: time.Now().Add(d)} }

// Hit must be called outside bubbles (real clock).
func (d *Deadline) Hit() bool {
	if d.hit.Load() {
		return true
	}
	if time.Now().After(d.at) {
		d.hit.Store(true)
		return true
	}
	return false
}
