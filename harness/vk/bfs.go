package vk

import (
	"sync"
	"testing"
)

// Step is what executing one history (on a fresh instance) reports back to the explorer.
type Step[Op any] struct {
	// Key is the canonical state key reached by the history (dedup).
	Key string
	// Next are the operations enabled in that state (ordered simplest first).
	Next []Op
	// Skip: do not expand and do not count as a state (e.g. the history is infeasible).
	Skip bool
}

// BFSResult summarises an exploration.
type BFSResult[Op any] struct {
	States      int
	Transitions int
	MaxDepth    int
	// Histories holds one shortest history per distinct state, in BFS order.
	Histories [][]Op
	Capped    bool
}

// BFS explores operation histories breadth-first. Successors are produced by re-executing
// the shortest history of a state plus one operation on a fresh instance (exec does that,
// inside its own bubble). States are deduplicated on Step.Key.
func BFS[Op any](t *testing.T, maxDepth, workers int, dl *Deadline, exec func(t *testing.T, shard int, hist []Op) Step[Op]) BFSResult[Op] {
	var res BFSResult[Op]
	seen := map[string]struct{}{}
	type node struct {
		hist []Op
		next []Op
	}
	root := exec(t, 0, nil)
	seen[root.Key] = struct{}{}
	res.States = 1
	res.Histories = append(res.Histories, nil)
	frontier := []node{{nil, root.Next}}
	for depth := 1; depth <= maxDepth && len(frontier) > 0; depth++ {
		// build the work list for this level
		type item struct {
			hist []Op
		}
		var work []item
		for _, n := range frontier {
			for _, op := range n.next {
				h := make([]Op, len(n.hist)+1)
				copy(h, n.hist)
				h[len(n.hist)] = op
				work = append(work, item{h})
			}
		}
		results := make([]Step[Op], len(work))
		done := make([]bool, len(work))
		q := NewWorkQueue(len(work))
		Shards(t, workers, func(t *testing.T, shard int) {
			for {
				if dl != nil && dl.Hit() {
					return
				}
				i, ok := q.Next()
				if !ok {
					return
				}
				results[i] = exec(t, shard, work[i].hist)
				done[i] = true
			}
		})
		var next []node
		var mu sync.Mutex
		_ = mu
		for i := range work {
			if !done[i] {
				res.Capped = true
				continue
			}
			if results[i].Skip {
				continue
			}
			res.Transitions++
			if _, ok := seen[results[i].Key]; ok {
				continue
			}
			seen[results[i].Key] = struct{}{}
			res.States++
			res.MaxDepth = depth
			res.Histories = append(res.Histories, work[i].hist)
			next = append(next, node{work[i].hist, results[i].Next})
		}
		frontier = next
		if res.Capped {
			break
		}
	}
	return res
}
