// Package vk is the common kernel of the /verif model-checking harness:
// evidence/violation bookkeeping, the harness header type, the bubble wrapper,
// the logging datastore and the explorers.
package vk

import (
	"crypto/sha256"
	"encoding/hex"
	"encoding/json"
	"fmt"
	"os"
	"path/filepath"
	"sort"
	"strconv"
	"sync"
	"time"
)

// VerifRoot is where evidence/, replays/ and .out/ live.
func VerifRoot() string {
	if r := os.Getenv("VERIF_ROOT"); r != "" {
		return r
	}
	return "/verif"
}

// Violation is one oracle failure on one real execution.
type Violation struct {
	// Class is the stable signature of the failing clause + the discriminating features
	// of the failing input (used to match known findings).
	Class string `json:"class"`
	// Msg is a human readable explanation (observed vs expected).
	Msg string `json:"msg"`
	// Replay is the path of the replay artefact.
	Replay string `json:"replay"`
	// Count is how many explored cases failed with this class.
	Count int `json:"count"`
}

// Run accumulates what one check run covered and found.
type Run struct {
	ID    string
	Tier  string
	Seed  int64
	Level string

	start time.Time
	mu    sync.Mutex

	evaluations int64
	states      int64
	transitions int64
	validated   int64
	distinct    map[string]struct{}
	samples     []any
	maxSamples  int
	extra       map[string]any
	assumptions []string
	rule        string
	exhaustive  bool
	harnessErrs []string

	viol      map[string]*Violation
	violOrder []string
}

func NewRun(id, level string) *Run {
	tier := os.Getenv("VERIF_TIER")
	if tier != "thorough" {
		tier = "quick"
	}
	seed, _ := strconv.ParseInt(os.Getenv("VERIF_SEED"), 10, 64)
	return &Run{
		ID: id, Tier: tier, Seed: seed, Level: level,
		start:      time.Now(),
		distinct:   map[string]struct{}{},
		maxSamples: 6,
		extra:      map[string]any{},
		viol:       map[string]*Violation{},
		exhaustive: true,
	}
}

func (r *Run) Thorough() bool { return r.Tier == "thorough" }

// Pick returns q for quick and t for thorough.
func Pick[T any](r *Run, q, t T) T {
	if r.Thorough() {
		return t
	}
	return q
}

func (r *Run) AddEval(n int64)        { r.mu.Lock(); r.evaluations += n; r.mu.Unlock() }
func (r *Run) AddStates(n int64)      { r.mu.Lock(); r.states += n; r.mu.Unlock() }
func (r *Run) AddTransitions(n int64) { r.mu.Lock(); r.transitions += n; r.mu.Unlock() }
func (r *Run) AddValidated(n int64)   { r.mu.Lock(); r.validated += n; r.mu.Unlock() }
func (r *Run) SetRule(s string)       { r.mu.Lock(); r.rule = s; r.mu.Unlock() }
func (r *Run) Assume(s string)        { r.mu.Lock(); r.assumptions = append(r.assumptions, s); r.mu.Unlock() }
func (r *Run) NotExhaustive(why string) {
	r.mu.Lock()
	r.exhaustive = false
	r.extra["not_exhaustive_because"] = why
	r.mu.Unlock()
}
func (r *Run) Set(key string, v any) { r.mu.Lock(); r.extra[key] = v; r.mu.Unlock() }
func (r *Run) AddCounter(key string, n int64) {
	r.mu.Lock()
	c, _ := r.extra[key].(int64)
	r.extra[key] = c + n
	r.mu.Unlock()
}

// Distinct records a distinct non-trivial case/outcome key. Reports whether it was new.
func (r *Run) Distinct(key string) bool {
	r.mu.Lock()
	defer r.mu.Unlock()
	if _, ok := r.distinct[key]; ok {
		return false
	}
	r.distinct[key] = struct{}{}
	return true
}

func (r *Run) Sample(v any) {
	r.mu.Lock()
	if len(r.samples) < r.maxSamples {
		r.samples = append(r.samples, v)
	}
	r.mu.Unlock()
}

// HarnessError records a failure of the machinery itself (never a VIOLATION).
func (r *Run) HarnessError(format string, a ...any) {
	r.mu.Lock()
	if len(r.harnessErrs) < 20 {
		r.harnessErrs = append(r.harnessErrs, fmt.Sprintf(format, a...))
	}
	r.mu.Unlock()
}

// Violate records a violation of the property. replay must be JSON-marshalable and
// sufficient to re-execute the failing case via `./check <ID> --replay <file>`.
func (r *Run) Violate(class string, replay any, format string, a ...any) {
	r.mu.Lock()
	defer r.mu.Unlock()
	if v, ok := r.viol[class]; ok {
		v.Count++
		return
	}
	if len(r.viol) >= 60 {
		// cap the number of distinct classes; the rest is aggregated
		class = r.ID + "/overflow-more-classes"
		if v, ok := r.viol[class]; ok {
			v.Count++
			return
		}
	}
	msg := fmt.Sprintf(format, a...)
	doc := map[string]any{"property": r.ID, "class": class, "msg": msg, "case": replay}
	b, _ := json.MarshalIndent(doc, "", " ")
	sum := sha256.Sum256([]byte(class))
	dir := filepath.Join(VerifRoot(), "replays")
	_ = os.MkdirAll(dir, 0o755)
	path := filepath.Join(dir, r.ID+"-"+hex.EncodeToString(sum[:6])+".json")
	_ = os.WriteFile(path, b, 0o644)
	r.viol[class] = &Violation{Class: class, Msg: msg, Replay: path, Count: 1}
	r.violOrder = append(r.violOrder, class)
}

func (r *Run) Violations() int { r.mu.Lock(); defer r.mu.Unlock(); return len(r.viol) }

// Finish writes evidence/<ID>.json and .out/<ID>.result.json.
func (r *Run) Finish() {
	r.mu.Lock()
	defer r.mu.Unlock()
	cov := map[string]any{}
	for k, v := range r.extra {
		cov[k] = v
	}
	cov["evaluations"] = r.evaluations
	cov["distinct_nontrivial"] = len(r.distinct)
	cov["rule"] = r.rule
	samples := r.samples
	if len(samples) == 0 {
		samples = []any{"(no sample recorded)"}
	}
	cov["samples"] = samples
	st, tr := r.states, r.transitions
	if st == 0 {
		st = int64(len(r.distinct))
	}
	if tr == 0 {
		tr = r.evaluations
	}
	cov["states"] = st
	cov["transitions"] = tr
	cov["traces_validated_against_impl"] = r.validated
	cov["exhaustive"] = r.exhaustive
	nviol := 0
	for _, v := range r.viol {
		nviol += v.Count
	}
	ev := map[string]any{
		"property_id": r.ID,
		"tier":        r.Tier,
		"seed":        r.Seed,
		"level":       r.Level,
		"coverage":    cov,
		"assumptions": r.assumptions,
		"wall_s":      time.Since(r.start).Seconds(),
		"violations":  nviol,
	}
	if ev["assumptions"] == nil {
		ev["assumptions"] = []string{}
	}
	b, _ := json.MarshalIndent(ev, "", " ")
	evp := os.Getenv("VERIF_EVIDENCE")
	if evp == "" {
		evp = filepath.Join(VerifRoot(), "evidence", r.ID+".json")
	}
	_ = os.MkdirAll(filepath.Dir(evp), 0o755)
	if err := os.WriteFile(evp, b, 0o644); err != nil {
		r.harnessErrs = append(r.harnessErrs, "writing evidence: "+err.Error())
	}

	viols := make([]*Violation, 0, len(r.viol))
	sort.Strings(r.violOrder)
	for _, c := range r.violOrder {
		viols = append(viols, r.viol[c])
	}
	dkeys := make([]string, 0, len(r.distinct))
	for k := range r.distinct {
		dkeys = append(dkeys, HashKey(k))
	}
	sort.Strings(dkeys)
	res := map[string]any{
		"property_id":    r.ID,
		"violations":     viols,
		"harness_errors": r.harnessErrs,
		"distinct_keys":  dkeys,
		"done":           true,
	}
	rb, _ := json.MarshalIndent(res, "", " ")
	rp := os.Getenv("VERIF_RESULT")
	if rp == "" {
		rp = filepath.Join(VerifRoot(), ".out", r.ID+".result.json")
	}
	_ = os.MkdirAll(filepath.Dir(rp), 0o755)
	_ = os.WriteFile(rp, rb, 0o644)
}

// Inflight records the case being executed so that a process crash can be attributed.
func (r *Run) Inflight(shard int, c any) {
	p := os.Getenv("VERIF_INFLIGHT")
	if p == "" {
		return
	}
	b, _ := json.Marshal(map[string]any{"property": r.ID, "case": c})
	f := p + "." + strconv.Itoa(shard)
	if os.WriteFile(f+".tmp", b, 0o644) == nil {
		_ = os.Rename(f+".tmp", f)
	}
}

// ReplayCase loads the "case" field of the replay file named by VERIF_REPLAY into v.
// Reports false if no replay was requested.
func ReplayCase(v any) (bool, error) {
	p := os.Getenv("VERIF_REPLAY")
	if p == "" {
		return false, nil
	}
	b, err := os.ReadFile(p)
	if err != nil {
		return true, err
	}
	var doc struct {
		Case json.RawMessage `json:"case"`
	}
	if err := json.Unmarshal(b, &doc); err != nil {
		return true, err
	}
	return true, json.Unmarshal(doc.Case, v)
}

// HashKey gives a short stable key for arbitrary JSON-able data.
func HashKey(v any) string {
	b, _ := json.Marshal(v)
	s := sha256.Sum256(b)
	return hex.EncodeToString(s[:8])
}
