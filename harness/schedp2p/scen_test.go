package schedp2p

import (
	"context"
	"fmt"
	"testing"
	"time"

	"verif/vk"
)

const from = 5

type rangeOut struct {
	Hs  []uint64
	Err string
}

// rangeScenario: one caller fetching (from, from+L] through the real Exchange while the session's
// dispatcher, its per-request goroutines and the tracker goroutines are scheduled by the explorer.
func rangeScenario(name string, m, l uint64, avail []uint64, grow ...uint64) Scenario {
	to := uint64(from) + 1 + l
	return Scenario{Name: name, Batch: int(m), Cfg: WCfg{M: m, Avail: avail, Grow: grow},
		Build: func(e *Env) {
			e.Thread("caller", func() {
				ctx, cancel := context.WithTimeout(context.Background(), time.Minute)
				defer cancel()
				hs, err := e.W.Ex.GetRangeByHeight(ctx, chain[from], to)
				o := rangeOut{Hs: vk.Heights(hs)}
				if err != nil {
					o.Err = err.Error()
				}
				for i, h := range hs {
					if h == nil || (h.Ht <= chain.N() && string(h.Hash()) != string(chain[h.Ht].Hash())) {
						o.Err = fmt.Sprintf("header %d of the result is not the chain's header", i)
					}
				}
				e.Note("out", o)
			})
		},
		Check: func(e *Env, x *Exec, viol func(string, string, ...any)) {
			o, _ := e.Get("out").(rangeOut)
			x.Outcome = fmt.Sprintf("%v|%s", o.Hs, o.Err)
			if o.Err != "" {
				viol("fails-with-honest-peers", "honest peers hold the range but GetRangeByHeight failed: %s (got %v)", o.Err, o.Hs)
				return
			}
			if uint64(len(o.Hs)) != l {
				viol("incomplete-range", "got heights %v, want %d..%d", o.Hs, from+1, to-1)
				return
			}
			for i, h := range o.Hs {
				if h != uint64(from)+1+uint64(i) {
					viol("wrong-range", "got heights %v, want %d..%d ascending without gaps or duplicates", o.Hs, from+1, to-1)
					return
				}
			}
		}}
}

func rangeScenarios() []Scenario {
	full := uint64(30)
	out := []Scenario{
		// one request, first peer answers a prefix: the remainder is re-requested from the other peer
		rangeScenario("R1-single-request-partial-then-full", 8, 6, []uint64{from + 4, full}, full, full),
		rangeScenario("R2-single-request-full-then-partial", 8, 6, []uint64{full, from + 4}, full, full),
		// two chunks, two capable peers: chunks arrive in either order
		rangeScenario("R3-two-chunks-two-peers", 2, 4, []uint64{full, full}),
		// three chunks, two peers: the third chunk waits for a free peer
		rangeScenario("R4-three-chunks-two-peers", 2, 5, []uint64{full, full}),
	}
	if thoroughTier {
		out = append(out,
			rangeScenario("R5-three-peers-two-partial", 3, 6, []uint64{from + 2, from + 4, full}, full, full, full),
			rangeScenario("R6-chunk-one", 1, 3, []uint64{from + 1, full}, full, full),
		)
	}
	return out
}

var thoroughTier bool

func runProp(t *testing.T, id string, scenarios func() []Scenario, rule string) {
	curPropID = id
	run := vk.NewRun(id, "model_checking")
	defer run.Finish()
	thoroughTier = run.Thorough()
	run.SetRule(rule)
	run.Assume("scheduling points: every sync/atomic/channel/select/go operation of the p2p package (instrumented copy generated from the working tree; the tracker's map iteration is replaced by sorted iteration and host keys are fixed so that peer order is reproducible); the servers and libp2p's mocknet are real and run to quiescence between scheduling decisions, i.e. a network round trip is atomic inside the requesting thread's step")

	var rc schedCase
	if is, err := vk.ReplayCase(&rc); is {
		if err != nil {
			t.Fatal(err)
		}
		for _, sc := range scenarios() {
			if sc.Name == rc.Scenario {
				x, log := execute(t, run, sc, rc.Schedule, true)
				classify(run, sc, x, rc.Schedule)
				for _, l := range log {
					fmt.Println("  ", l)
				}
				fmt.Printf("replayed %s schedule %v: outcome=%s idle=%d steps=%d violations=%d\n", sc.Name, rc.Schedule, x.Outcome, x.Idle, x.Steps, run.Violations())
			}
		}
		return
	}
	claimed := vk.Pick(run, 1, 2)
	run.Set("preemption_bound_claimed", claimed)
	scs := scenarios()
	slot := vk.Pick(run, 5*time.Minute, 30*time.Minute) / time.Duration(len(scs))
	var total int64
	per := map[string]any{}
	for _, sc := range scs {
		info := map[string]any{}
		for bound := claimed; bound <= claimed+1; bound++ {
			dl := vk.NewDeadline(slot)
			if bound > claimed {
				dl = vk.NewDeadline(vk.Pick(run, 10*time.Second, slot))
			}
			st := explore(t, run, sc, bound, dl)
			total += st.Execs
			run.AddEval(st.Execs)
			run.AddTransitions(st.Points)
			info[fmt.Sprintf("bound%d", bound)] = map[string]any{"executions": st.Execs, "scheduling_decisions": st.Points, "longest_schedule": st.MaxLen, "distinct_outcomes": len(st.Outcomes), "capped": st.Capped}
			for o := range st.Outcomes {
				run.Distinct(fmt.Sprintf("%s/%s", sc.Name, o))
			}
			if st.Capped {
				if bound == claimed {
					run.NotExhaustive(fmt.Sprintf("time slot exhausted in %s at the claimed bound %d", sc.Name, bound))
				}
				break
			}
		}
		per[sc.Name] = info
		x1, _ := execute(t, run, sc, nil, false)
		x2, _ := execute(t, run, sc, nil, false)
		if len(x1.Trace) != len(x2.Trace) || x1.Outcome != x2.Outcome {
			run.HarnessError("replay of the default schedule of %s is not deterministic (%d vs %d decisions, %q vs %q)", sc.Name, len(x1.Trace), len(x2.Trace), x1.Outcome, x2.Outcome)
		}
		run.AddValidated(1)
		run.Sample(map[string]any{"scenario": sc.Name, "default_schedule_decisions": len(x1.Trace), "outcome": x1.Outcome})
	}
	run.AddStates(total)
	run.Set("per_scenario", per)
}

const rangeRule = "schedule part: stateless DFS with preemption bounding over the interleavings of the Exchange client's goroutines (caller, session dispatcher, one goroutine per request, peer tracker) on the instrumented p2p package against real honest servers over mocknet: single request answered partially then completed by another peer (both peer orders), two chunks on two peers, three chunks with a partial peer, (thorough) three peers / chunk size 1; oracle per execution: nil error and exactly from+1..to-1 ascending, each the chain's header"

func TestC18(t *testing.T) { runProp(t, "C18", rangeScenarios, rangeRule) }
func TestC05(t *testing.T) { runProp(t, "C05", rangeScenarios, rangeRule) }
