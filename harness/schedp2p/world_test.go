package schedp2p

import (
	"bytes"
	"context"
	"errors"
	"fmt"
	gosync "sync"
	"time"

	"github.com/ipfs/go-datastore"
	dssync "github.com/ipfs/go-datastore/sync"
	"github.com/libp2p/go-libp2p/core/crypto"
	"github.com/libp2p/go-libp2p/core/host"
	"github.com/libp2p/go-libp2p/core/peer"
	"github.com/libp2p/go-libp2p/p2p/net/conngater"
	mocknet "github.com/libp2p/go-libp2p/p2p/net/mock"
	ma "github.com/multiformats/go-multiaddr"

	"github.com/celestiaorg/go-header"
	"github.com/celestiaorg/go-header/p2p"

	"verif/vk"
)

const netID = "vk"

// WCfg configures the world of one schedule scenario.
type WCfg struct {
	M uint64 // MaxHeadersPerRangeRequest
	// Avail: per peer (in peer-ID order, the order the instrumented tracker hands them to a session)
	// the top height of its store
	Avail []uint64
	// Heads: per peer the height it reports as head (0 = Avail)
	Trusted int // number of peers that are trusted (first ones); 0 = all
	// Grow: per peer, the top of its store after it has served its first range request (0 = unchanged):
	// an honest peer that is itself still syncing. Keeps a partially available peer from answering
	// NOT_FOUND hundreds of times in a row (its score only decays by 20% per failure while a peer that
	// was never used has score 0), which makes schedules thousands of decisions long.
	Grow []uint64
}

// memStore is a boring honest read-only header.Store holding c[1..top].
type memStore struct {
	mu     gosync.Mutex
	c      vk.Chain
	top    uint64
	growTo uint64
	ranges []string
}

func (m *memStore) Top() uint64 { m.mu.Lock(); defer m.mu.Unlock(); return m.top }
func (m *memStore) Head(context.Context, ...header.HeadOption[*vk.H]) (*vk.H, error) {
	t := m.Top()
	if t == 0 {
		return nil, header.ErrEmptyStore
	}
	return m.c[t], nil
}
func (m *memStore) Tail(context.Context) (*vk.H, error) {
	if m.Top() == 0 {
		return nil, header.ErrEmptyStore
	}
	return m.c[1], nil
}
func (m *memStore) Height() uint64 { return m.Top() }
func (m *memStore) Get(_ context.Context, h header.Hash) (*vk.H, error) {
	t := m.Top()
	for i := uint64(1); i <= t; i++ {
		if bytes.Equal(m.c[i].Hash(), h) {
			return m.c[i], nil
		}
	}
	return nil, header.ErrNotFound
}
func (m *memStore) GetByHeight(_ context.Context, h uint64) (*vk.H, error) {
	if h == 0 || h > m.Top() {
		return nil, header.ErrNotFound
	}
	return m.c[h], nil
}
func (m *memStore) Has(ctx context.Context, h header.Hash) (bool, error) {
	_, err := m.Get(ctx, h)
	return err == nil, nil
}
func (m *memStore) HasAt(_ context.Context, h uint64) bool { return h != 0 && h <= m.Top() }
func (m *memStore) GetRange(_ context.Context, from, to uint64) ([]*vk.H, error) {
	m.mu.Lock()
	m.ranges = append(m.ranges, fmt.Sprintf("[%d,%d)", from, to))
	top := m.top
	if m.growTo > m.top {
		m.top = m.growTo
	}
	m.mu.Unlock()
	if from >= to || to-1 > top || from == 0 {
		return nil, header.ErrNotFound
	}
	return m.c.Slice(from, to-1), nil
}
func (m *memStore) GetRangeByHeight(ctx context.Context, from *vk.H, to uint64) ([]*vk.H, error) {
	return m.GetRange(ctx, from.Ht+1, to)
}
func (m *memStore) Append(context.Context, ...*vk.H) error            { return errors.New("read-only") }
func (m *memStore) DeleteRange(context.Context, uint64, uint64) error { return errors.New("read-only") }
func (m *memStore) OnDelete(func(context.Context, uint64) error)      {}

var chain = vk.GenChain(vk.ChainSpec{N: 40, Step: time.Second})

// World: one real Exchange client and len(Avail) real ExchangeServers over mocknet.
type World struct {
	Cfg    WCfg
	mn     mocknet.Mocknet
	Ex     *p2p.Exchange[*vk.H]
	Stores []*memStore
	srvs   []*p2p.ExchangeServer[*vk.H]
}

// detKey returns the i-th deterministic host key: peer IDs (and with them the order in which the
// tracker hands peers to a session) must be the same in every execution.
func detKey(i int) crypto.PrivKey {
	seed := bytes.Repeat([]byte{byte(i + 1)}, 64)
	sk, _, err := crypto.GenerateEd25519Key(bytes.NewReader(seed))
	if err != nil {
		panic(err)
	}
	return sk
}

func NewWorld(cfg WCfg) (*World, error) {
	w := &World{Cfg: cfg}
	w.mn = mocknet.New()
	n := len(cfg.Avail) + 1
	hosts := make([]host.Host, n)
	for i := 0; i < n; i++ {
		a, _ := ma.NewMultiaddr(fmt.Sprintf("/ip4/127.0.0.1/tcp/%d", 4000+i))
		h, err := w.mn.AddPeer(detKey(i), a)
		if err != nil {
			return nil, err
		}
		hosts[i] = h
	}
	if err := w.mn.LinkAll(); err != nil {
		return nil, err
	}
	// servers in peer-ID order, so that Avail[i] belongs to the i-th peer the session sees
	srvHosts := append([]host.Host(nil), hosts[1:]...)
	for i := range srvHosts {
		for j := i + 1; j < len(srvHosts); j++ {
			if srvHosts[j].ID() < srvHosts[i].ID() {
				srvHosts[i], srvHosts[j] = srvHosts[j], srvHosts[i]
			}
		}
	}
	bg := context.Background()
	var ids peer.IDSlice
	for i, h := range srvHosts {
		ms := &memStore{c: chain, top: cfg.Avail[i]}
		if i < len(cfg.Grow) {
			ms.growTo = cfg.Grow[i]
		}
		srv, err := p2p.NewExchangeServer[*vk.H](h, ms, p2p.WithNetworkID[p2p.ServerParameters](netID))
		if err != nil {
			return nil, err
		}
		if err := srv.Start(bg); err != nil {
			return nil, err
		}
		w.srvs = append(w.srvs, srv)
		w.Stores = append(w.Stores, ms)
		ids = append(ids, h.ID())
	}
	if err := w.mn.ConnectAllButSelf(); err != nil {
		return nil, err
	}
	vk.Settle()
	if cfg.Trusted > 0 && cfg.Trusted < len(ids) {
		ids = ids[:cfg.Trusted]
	}
	g, _ := conngater.NewBasicConnectionGater(dssync.MutexWrap(datastore.NewMapDatastore()))
	ex, err := p2p.NewExchange[*vk.H](hosts[0], ids, g,
		p2p.WithNetworkID[p2p.ClientParameters](netID),
		p2p.WithChainID[p2p.ClientParameters]("vk"),
		p2p.WithMaxHeadersPerRangeRequest[p2p.ClientParameters](cfg.M),
		p2p.WithRequestTimeout[p2p.ClientParameters](3*time.Second),
	)
	if err != nil {
		return nil, err
	}
	if err := ex.Start(bg); err != nil {
		return nil, err
	}
	w.Ex = ex
	vk.Settle()
	return w, nil
}

func (w *World) Quiesce() { vk.Settle() }

func (w *World) Close() {
	ctx, cancel := context.WithTimeout(context.Background(), 10*time.Second)
	if w.Ex != nil {
		_ = w.Ex.Stop(ctx)
	}
	for _, s := range w.srvs {
		_ = s.Stop(ctx)
	}
	cancel()
	_ = w.mn.Close()
	vk.Settle()
}
