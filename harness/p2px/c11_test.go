package p2px

import (
	"context"
	"errors"
	"fmt"
	"testing"
	"time"

	pubsub "github.com/libp2p/go-libp2p-pubsub"
	pubsub_pb "github.com/libp2p/go-libp2p-pubsub/pb"

	"github.com/celestiaorg/go-header"
	"github.com/celestiaorg/go-header/p2p"

	"verif/vk"
)

type c11Case struct {
	Payload  string `json:"payload"`
	Verifier string `json:"verifier"`
	// Pipeline: the case is published through real gossipsub instead of calling the validator
	Pipeline bool `json:"pipeline,omitempty"`
	// Metrics: the Subscriber is built with WithSubscriberMetrics (the case is its first message)
	Metrics bool `json:"metrics,omitempty"`
	// Before: payload kind of an earlier message validated by the same Subscriber (same verifier)
	Before string `json:"before,omitempty"`
	// Merge: the header type decodes straight into its receiver (json.Unmarshal(b, h) idiom)
	Merge bool `json:"merge,omitempty"`
}

var c11Payloads = []string{"valid", "trailing-bytes", "fails-validate", "wrong-json-type", "truncated", "empty", "random-bytes", "unknown-field",
	"validatordata-ok", "validatordata-fails-validate", "validatordata-wrong-type", "unmarshal-panics", "sparse"}
var c11Verifiers = []string{"nil", "bare-soft", "bare-hard", "wrapped-soft", "wrapped-hard", "joined-soft", "plain-error", "panic", "never-set", "set-later-nil", "set-later-hard"}

var errPlain = errors.New("plain verifier error")

func c11VerifierErr(kind string) error {
	switch kind {
	case "nil", "set-later-nil":
		return nil
	case "bare-soft":
		return &header.VerifyError{Reason: errPlain, SoftFailure: true}
	case "bare-hard", "set-later-hard":
		return &header.VerifyError{Reason: errPlain}
	case "wrapped-soft":
		return fmt.Errorf("ctx: %w", &header.VerifyError{Reason: errPlain, SoftFailure: true})
	case "wrapped-hard":
		return fmt.Errorf("ctx: %w", &header.VerifyError{Reason: errPlain})
	case "joined-soft":
		return errors.Join(errPlain, &header.VerifyError{Reason: errPlain, SoftFailure: true})
	case "plain-error":
		return errPlain
	}
	return nil
}

// c11Message builds the pubsub message; decodes reports whether the payload is a decodable,
// stateless-valid header.
func c11Message(kind string) (msg *pubsub.Message, decodes bool, want *vk.H) {
	h := c05Chain[7]
	good, _ := h.MarshalBinary()
	msg = &pubsub.Message{Message: &pubsub_pb.Message{}}
	switch kind {
	case "valid":
		msg.Data = good
		return msg, true, h
	case "trailing-bytes":
		msg.Data = append(append([]byte(nil), good...), []byte(`{"x":1}`)...)
	case "fails-validate":
		b := mutate(h, func(c *vk.H) { c.Bad = true })
		msg.Data, _ = b.MarshalBinary()
	case "wrong-json-type":
		msg.Data = []byte(`[1,2,3]`)
	case "truncated":
		msg.Data = good[:len(good)/2]
	case "empty":
		msg.Data = nil
	case "random-bytes":
		msg.Data = []byte{0x93, 0x27, 0x00, 0xfe, 0x10}
	case "unknown-field":
		msg.Data = []byte(`{"c":"vk","h":7,"zzz":true}`)
	case "validatordata-ok":
		msg.Data = good
		msg.ValidatorData = h
		return msg, true, h
	case "validatordata-fails-validate":
		msg.Data = good
		msg.ValidatorData = mutate(h, func(c *vk.H) { c.Bad = true })
	case "validatordata-wrong-type":
		msg.Data = good
		msg.ValidatorData = "not a header"
	case "unmarshal-panics":
		msg.Data = []byte("BOOM")
	case "sparse":
		// decodes and validates; most fields are absent, so the header is what a fresh receiver gives
		msg.Data = []byte(`{"c":"vk","h":7}`)
		w := &vk.H{}
		_ = w.UnmarshalBinary(msg.Data)
		return msg, true, w
	}
	return msg, false, nil
}

func c11Exec(t *testing.T, run *vk.Run, c c11Case) {
	run.Inflight(shardOf(t), c)
	feat := fmt.Sprintf("payload=%s,verifier=%s", c.Payload, c.Verifier)
	if c.Metrics {
		feat += ",metrics"
	}
	if c.Before != "" {
		feat += ",after=" + c.Before
	}
	if c.Merge {
		feat += ",merge-decode"
		vk.MergeDecode.Store(true)
		defer vk.MergeDecode.Store(false)
	}
	viol := func(clause, format string, a ...any) {
		run.Violate("C11/"+clause+"/"+feat, c, "%s: %s", feat, fmt.Sprintf(format, a...))
	}
	br := vk.Bubble(t, func() {
		sopts := []p2p.SubscriberOption{p2p.WithSubscriberNetworkID(netID)}
		if c.Metrics {
			sopts = append(sopts, p2p.WithSubscriberMetrics())
		}
		sub, err := p2p.NewSubscriber[*vk.H](nil, nil, sopts...)
		if err != nil {
			run.HarnessError("C11 NewSubscriber: %v", err)
			return
		}
		calls := 0
		var seen *vk.H
		verifier := func(ctx context.Context, h *vk.H) error {
			calls++
			seen = h
			if c.Verifier == "panic" {
				panic("verifier panics")
			}
			return c11VerifierErr(c.Verifier)
		}
		later := c.Verifier == "set-later-nil" || c.Verifier == "set-later-hard"
		if c.Verifier != "never-set" && !later {
			if err := sub.SetVerifier(verifier); err != nil {
				run.HarnessError("SetVerifier: %v", err)
			}
		}
		if c.Before != "" {
			// an earlier message through the same Subscriber; whatever its verdict, the statement
			// about the next message does not depend on it
			pm, _, _ := c11Message(c.Before)
			pctx, pcancel := context.WithTimeout(context.Background(), 10*time.Second)
			prev := vk.Spawn(func() (pubsub.ValidationResult, error) {
				return sub.VerifValidate(pctx, "", pm), nil
			})
			vk.Settle()
			for i := 0; i < 15 && !prev.Done(); i++ {
				vk.Advance(time.Second)
			}
			pcancel()
			if !prev.Done() {
				viol("hang", "validator did not return for the earlier message")
				return
			}
			calls, seen = 0, nil
		}
		msg, decodes, want := c11Message(c.Payload)
		ctx, cancel := context.WithTimeout(context.Background(), 10*time.Second)
		defer cancel()
		call := vk.Spawn(func() (pubsub.ValidationResult, error) {
			return sub.VerifValidate(ctx, "", msg), nil
		})
		vk.Settle()
		if later {
			if call.Done() && decodes {
				viol("did-not-wait-for-verifier", "validator returned %v before any verifier was set", call.Val)
			}
			vk.Advance(time.Second)
			_ = sub.SetVerifier(verifier)
			vk.Settle()
		}
		for i := 0; i < 15 && !call.Done(); i++ {
			vk.Advance(time.Second)
		}
		if !call.Done() {
			viol("hang", "validator did not return after its context expired")
			return
		}
		if call.Panic != "" {
			viol("panic-escaped", "validator panicked: %s", call.Panic)
			return
		}
		got := call.Val
		// reference verdict
		var wantRes pubsub.ValidationResult
		switch {
		case !decodes:
			wantRes = pubsub.ValidationReject
		case c.Verifier == "never-set":
			wantRes = pubsub.ValidationIgnore
		case c.Verifier == "nil" || c.Verifier == "set-later-nil":
			wantRes = pubsub.ValidationAccept
		case c.Verifier == "bare-soft" || c.Verifier == "wrapped-soft" || c.Verifier == "joined-soft":
			wantRes = pubsub.ValidationIgnore
		default:
			wantRes = pubsub.ValidationReject
		}
		run.Distinct(fmt.Sprintf("%s|%v", feat, got))
		name := map[pubsub.ValidationResult]string{pubsub.ValidationAccept: "accept", pubsub.ValidationReject: "reject", pubsub.ValidationIgnore: "ignore"}
		if got != wantRes {
			viol("wrong-verdict-"+name[got]+"-instead-of-"+name[wantRes], "validator returned %s, the statement requires %s", name[got], name[wantRes])
		}
		if !decodes && calls > 0 {
			viol("verifier-called-for-invalid-payload", "the verifier was called %d times for a payload that does not decode/validate", calls)
		}
		if got == pubsub.ValidationAccept {
			vd, ok := msg.ValidatorData.(*vk.H)
			if !ok || vd == nil || want == nil || string(vd.Hash()) != string(want.Hash()) {
				viol("delivered-value-wrong", "accepted message carries ValidatorData %v, want the decoded header %v", msg.ValidatorData, want)
			}
			if seen == nil || want == nil || string(seen.Hash()) != string(want.Hash()) {
				viol("verifier-saw-other-header", "verifier was shown %v", seen)
			}
		}
	})
	if br.Panic != "" {
		viol("panic-escaped", "%s\n%s", br.Panic, br.Stack)
	}
	if br.Deadlock {
		viol("goroutine-leak", "validator left a blocked goroutine behind")
	}
}

func TestC11(t *testing.T) {
	run := vk.NewRun("C11", "model_checking")
	defer run.Finish()
	run.SetRule("the Subscriber's real topic validator (exported under the verif tag) is run on every payload in {valid, trailing bytes, fails Validate, wrong JSON type, truncated, empty, random bytes, unknown field, local ValidatorData ok / failing Validate / wrong type, UnmarshalBinary panics} x every verifier outcome in {nil, bare/wrapped/joined soft, bare/wrapped hard, plain error, panic, never set (context expiry), set later returning nil / hard} x {metrics off, metrics on (first message of a fresh Subscriber)}; two-message histories: an earlier message in {valid, fails Validate, sparse, truncated, local failing Validate} then every payload x every verifier outcome x {header type decoding into a fresh value, decoding straight into its receiver}, same oracle; plus the same classes published through real gossipsub between mocknet hosts; distinct = (payload, verifier, verdict)")
	run.Assume("the gossipsub pipeline part observes delivery/relay; scoring effects are taken from the validation result (Reject penalises, Ignore does not) as documented by go-libp2p-pubsub")

	var rc c11Case
	if is, err := vk.ReplayCase(&rc); is {
		if err != nil {
			t.Fatal(err)
		}
		if rc.Pipeline {
			c11Pipeline(t, run, &rc)
		} else {
			c11Exec(t, run, rc)
		}
		fmt.Printf("replayed %+v: violations=%d\n", rc, run.Violations())
		return
	}
	n := 0
	for _, p := range c11Payloads {
		for _, v := range c11Verifiers {
			c := c11Case{Payload: p, Verifier: v}
			c11Exec(t, run, c)
			run.AddEval(1)
			mc := c
			mc.Metrics = true
			c11Exec(t, run, mc)
			run.AddEval(1)
			if n%13 == 0 {
				run.Sample(c)
			}
			n++
		}
	}
	// histories of two messages: an earlier message of every kind that gets decoded, then every payload, with
	// every verifier outcome that lets the earlier message finish; both decoding styles of the header type
	for _, before := range []string{"valid", "fails-validate", "sparse", "truncated", "validatordata-fails-validate"} {
		for _, p := range c11Payloads {
			for _, v := range c11Verifiers {
				if v == "never-set" || v == "set-later-nil" || v == "set-later-hard" {
					continue
				}
				for _, merge := range []bool{false, true} {
					c11Exec(t, run, c11Case{Payload: p, Verifier: v, Before: before, Merge: merge})
					run.AddEval(1)
				}
			}
		}
	}
	c11Pipeline(t, run, nil)
	run.AddValidated(int64(len(c11Payloads) * len(c11Verifiers))) // every class is executed on the real validator
}

// c11Pipeline binds the verdicts to the real gossipsub pipeline: A publishes raw payloads,
// B runs the real Subscriber, C sits behind B and only sees what B relays.
func c11Pipeline(t *testing.T, run *vk.Run, only *c11Case) {
	type pc struct {
		Payload, Verifier string
		deliver           bool
	}
	cases := []pc{
		{"valid", "nil", true}, {"valid", "bare-soft", false}, {"valid", "wrapped-soft", false}, {"valid", "bare-hard", false},
		{"valid", "plain-error", false}, {"valid", "panic", false}, {"fails-validate", "nil", false}, {"truncated", "nil", false},
		{"trailing-bytes", "nil", false}, {"unmarshal-panics", "nil", false}, {"random-bytes", "nil", false},
	}
	for _, c := range cases {
		c := c
		if only != nil && (only.Payload != c.Payload || only.Verifier != c.Verifier) {
			continue
		}
		run.Inflight(shardOf(t), c11Case{Payload: c.Payload, Verifier: c.Verifier, Pipeline: true})
		feat := fmt.Sprintf("pipeline,payload=%s,verifier=%s", c.Payload, c.Verifier)
		viol := func(clause, format string, a ...any) {
			run.Violate("C11/"+clause+"/"+feat, c11Case{Payload: c.Payload, Verifier: c.Verifier, Pipeline: true}, "%s: %s", feat, fmt.Sprintf(format, a...))
		}
		br := vk.Bubble(t, func() {
			ctx, cancel := context.WithCancel(context.Background())
			defer cancel()
			mn := mocknetNew()
			defer mn.Close()
			hs, err := lineHosts(mn, 3)
			if err != nil {
				run.HarnessError("C11 pipeline hosts: %v", err)
				return
			}
			msgID := func(m *pubsub_pb.Message) string { return string(m.Data) + "|" + string(m.From) + string(m.Seqno) }
			var pss []*pubsub.PubSub
			for _, h := range hs {
				ps, err := pubsub.NewGossipSub(ctx, h, pubsub.WithMessageSignaturePolicy(pubsub.StrictNoSign), pubsub.WithNoAuthor(),
					pubsub.WithMessageIdFn(func(m *pubsub_pb.Message) string { return string(m.Data) }))
				if err != nil {
					run.HarnessError("C11 gossipsub: %v", err)
					return
				}
				pss = append(pss, ps)
			}
			_ = msgID
			sub, err := p2p.NewSubscriber[*vk.H](pss[1], func(m *pubsub_pb.Message) string { return string(m.Data) }, p2p.WithSubscriberNetworkID(netID))
			if err != nil {
				run.HarnessError("C11 subscriber: %v", err)
				return
			}
			if err := sub.Start(ctx); err != nil {
				run.HarnessError("C11 subscriber start: %v", err)
				return
			}
			calls := 0
			_ = sub.SetVerifier(func(ctx context.Context, h *vk.H) error {
				calls++
				if c.Verifier == "panic" {
					panic("verifier panics")
				}
				return c11VerifierErr(c.Verifier)
			})
			subscription, err := sub.Subscribe()
			if err != nil {
				run.HarnessError("C11 subscribe: %v", err)
				return
			}
			topicName := p2p.PubsubTopicID(netID)
			ta, _ := pss[0].Join(topicName)
			tc, _ := pss[2].Join(topicName)
			sc, _ := tc.Subscribe()
			for i := 0; i+1 < len(hs); i++ {
				if _, err := mn.ConnectPeers(hs[i].ID(), hs[i+1].ID()); err != nil {
					run.HarnessError("C11 connect: %v", err)
					return
				}
			}
			vk.Advance(3 * time.Second) // heartbeats build the mesh
			msg, _, want := c11Message(c.Payload)
			if err := ta.Publish(ctx, msg.Data); err != nil {
				run.HarnessError("C11 publish: %v", err)
				return
			}
			vk.Advance(3 * time.Second)
			// delivered to B's subscription?
			dctx, dc := context.WithTimeout(ctx, time.Second)
			got, derr := subscription.NextHeader(dctx)
			dc()
			delivered := derr == nil
			rctx, rc := context.WithTimeout(ctx, time.Second)
			_, rerr := sc.Next(rctx)
			rc()
			relayed := rerr == nil
			run.Distinct(fmt.Sprintf("%s|delivered=%v,relayed=%v", feat, delivered, relayed))
			run.AddEval(1)
			if delivered != c.deliver {
				viol("pipeline-delivery", "delivered to the Subscription=%v, want %v", delivered, c.deliver)
			}
			if relayed != c.deliver {
				viol("pipeline-relay", "relayed to the node behind=%v, want %v", relayed, c.deliver)
			}
			if delivered && (got == nil || want == nil || string(got.Hash()) != string(want.Hash())) {
				viol("pipeline-delivered-value", "NextHeader returned %v, want %v", got, want)
			}
			subscription.Cancel()
			sc.Cancel()
			_ = sub.Stop(ctx)
			cancel()
			vk.Advance(time.Second)
		})
		if br.Panic != "" {
			viol("panic-escaped", "%s\n%s", br.Panic, br.Stack)
		}
	}
}
