package p2px

import (
	"context"
	"encoding/binary"
	"fmt"
	"strings"
	"sync"
	"time"

	"github.com/ipfs/go-datastore"
	dssync "github.com/ipfs/go-datastore/sync"
	"github.com/libp2p/go-libp2p/core/host"
	"github.com/libp2p/go-libp2p/core/network"
	"github.com/libp2p/go-libp2p/core/peer"
	"github.com/libp2p/go-libp2p/core/protocol"
	"github.com/libp2p/go-libp2p/p2p/net/conngater"
	mocknet "github.com/libp2p/go-libp2p/p2p/net/mock"

	"github.com/celestiaorg/go-libp2p-messenger/serde"

	"github.com/celestiaorg/go-header/p2p"
	p2p_pb "github.com/celestiaorg/go-header/p2p/pb"

	"verif/vk"
)

const netID = "vk"

var protoID = protocol.ID("/" + netID + "/header-ex/v0.0.3")

// ---------- deadline honouring host decorator ----------

// dlHost wraps a mocknet host so that streams honour Set*Deadline with bubble timers:
// when a deadline passes the stream is reset, which fails pending reads/writes.
type dlHost struct {
	host.Host
	honour bool
	// latency: every inbound stream is handled this much later (virtual); 0 = instantly
	latency time.Duration
}

func (h *dlHost) NewStream(ctx context.Context, p peer.ID, pids ...protocol.ID) (network.Stream, error) {
	s, err := h.Host.NewStream(ctx, p, pids...)
	if err != nil || !h.honour {
		return s, err
	}
	return &dlStream{Stream: s}, nil
}

func (h *dlHost) SetStreamHandler(pid protocol.ID, handler network.StreamHandler) {
	if !h.honour && h.latency == 0 {
		h.Host.SetStreamHandler(pid, handler)
		return
	}
	h.Host.SetStreamHandler(pid, func(s network.Stream) {
		if h.latency > 0 {
			time.Sleep(h.latency)
		}
		if !h.honour {
			handler(s)
			return
		}
		handler(&dlStream{Stream: s})
	})
}

type dlStream struct {
	network.Stream
	mu sync.Mutex
	tm *time.Timer
}

func (s *dlStream) arm(t time.Time) {
	s.mu.Lock()
	defer s.mu.Unlock()
	if s.tm != nil {
		s.tm.Stop()
		s.tm = nil
	}
	if t.IsZero() {
		return
	}
	d := time.Until(t)
	s.tm = time.AfterFunc(d, func() { _ = s.Stream.Reset() })
}

func (s *dlStream) disarm() {
	s.mu.Lock()
	if s.tm != nil {
		s.tm.Stop()
		s.tm = nil
	}
	s.mu.Unlock()
}

func (s *dlStream) SetDeadline(t time.Time) error      { s.arm(t); return nil }
func (s *dlStream) SetReadDeadline(t time.Time) error  { s.arm(t); return nil }
func (s *dlStream) SetWriteDeadline(t time.Time) error { s.arm(t); return nil }
func (s *dlStream) Close() error                       { s.disarm(); return s.Stream.Close() }
func (s *dlStream) Reset() error                       { s.disarm(); return s.Stream.Reset() }

// ---------- scripted peers ----------

// Answer is what a scripted peer does with one request.
type Answer struct {
	Kind string `json:"kind"`
	// parameters
	K int `json:"k,omitempty"`
}

func (a Answer) String() string {
	if a.K != 0 {
		return fmt.Sprintf("%s(%d)", a.Kind, a.K)
	}
	return a.Kind
}

// ReqKey identifies a request for scripting: kind + origin (or "hash"/"head").
type ReqKey struct {
	Origin uint64
	Hash   bool
	// Attempt number (0-based) of this origin across all peers.
	Attempt int
}

// Script decides the answer for (peer index, request, attempt).
type Script func(peerIdx int, req *p2p_pb.HeaderRequest, attempt int) Answer

// Net is a mocknet with one client host and k scripted peers.
type Net struct {
	MN     mocknet.Mocknet
	Client host.Host
	Peers  []host.Host
	Gater  *conngater.BasicConnectionGater
	C      vk.Chain

	mu       sync.Mutex
	attempts map[string]int
	// Log of requests seen by peers.
	Reqs []SeenReq
	// gates: when non-nil for a peer, its answer waits for the gate to be closed
	Gates []chan struct{}
	// Panics captured in peer handler goroutines (harness bugs)
	script Script
	hang   chan struct{}
	// Special headers addressable by answers of kind "special:<name>"
	Special  map[string]*vk.H
	released []bool
}

type SeenReq struct {
	Peer    int
	Origin  uint64
	Amount  uint64
	Hash    []byte
	Attempt int
	Answer  Answer
}

// NewNet builds hosts. honourDeadlines selects the stream decorator.
func NewNet(k int, chain vk.Chain, honourDeadlines bool, script Script) (*Net, error) {
	mn, err := mocknet.FullMeshConnected(k + 1)
	if err != nil {
		return nil, err
	}
	hosts := mn.Hosts()
	n := &Net{MN: mn, C: chain, attempts: map[string]int{}, script: script, hang: make(chan struct{})}
	n.Client = &dlHost{Host: hosts[0], honour: honourDeadlines}
	n.Gates = make([]chan struct{}, k)
	n.released = make([]bool, k)
	for i, h := range hosts[1:] {
		i := i
		n.Peers = append(n.Peers, h)
		h.SetStreamHandler(protoID, func(s network.Stream) { n.serve(i, s) })
	}
	g, err := conngater.NewBasicConnectionGater(dssync.MutexWrap(datastore.NewMapDatastore()))
	if err != nil {
		return nil, err
	}
	n.Gater = g
	return n, nil
}

func (n *Net) PeerIDs() peer.IDSlice {
	ids := make(peer.IDSlice, len(n.Peers))
	for i, p := range n.Peers {
		ids[i] = p.ID()
	}
	return ids
}

// NewExchange builds and starts a real client Exchange on the client host.
func (n *Net) NewExchange(trusted peer.IDSlice, opts ...p2p.Option[p2p.ClientParameters]) (*p2p.Exchange[*vk.H], error) {
	opts = append([]p2p.Option[p2p.ClientParameters]{p2p.WithNetworkID[p2p.ClientParameters](netID)}, opts...)
	ex, err := p2p.NewExchange[*vk.H](n.Client, trusted, n.Gater, opts...)
	if err != nil {
		return nil, err
	}
	if err := ex.Start(context.Background()); err != nil {
		return nil, err
	}
	vk.Settle()
	return ex, nil
}

// Release opens peer i's gate (its answer may now be sent).
func (n *Net) Release(i int) {
	if n.Gates[i] != nil && !n.released[i] {
		n.released[i] = true
		close(n.Gates[i])
	}
}

func (n *Net) Close() {
	close(n.hang)
	for i := range n.Gates {
		n.Release(i)
	}
	_ = n.MN.Close()
}

func reqKeyString(req *p2p_pb.HeaderRequest) string {
	if h := req.GetHash(); h != nil {
		return fmt.Sprintf("hash:%x", h)
	}
	return fmt.Sprintf("o:%d", req.GetOrigin())
}

func (n *Net) serve(idx int, s network.Stream) {
	req := new(p2p_pb.HeaderRequest)
	if _, err := serde.Read(s, req); err != nil {
		_ = s.Reset()
		return
	}
	n.mu.Lock()
	key := reqKeyString(req)
	attempt := n.attempts[key]
	n.attempts[key]++
	ans := Answer{Kind: "honest"}
	if n.script != nil {
		ans = n.script(idx, req, attempt)
	}
	n.Reqs = append(n.Reqs, SeenReq{Peer: idx, Origin: req.GetOrigin(), Amount: req.Amount, Hash: req.GetHash(), Attempt: attempt, Answer: ans})
	gate := n.Gates[idx]
	n.mu.Unlock()
	if gate != nil {
		<-gate
	}
	n.answer(s, req, ans)
}

func writeResp(s network.Stream, h *vk.H, code p2p_pb.StatusCode) error {
	var body []byte
	if h != nil {
		body, _ = h.MarshalBinary()
	}
	_, err := serde.Write(s, &p2p_pb.HeaderResponse{Body: body, StatusCode: code})
	return err
}

func writeHeaders(s network.Stream, hs []*vk.H) {
	for _, h := range hs {
		if err := writeResp(s, h, p2p_pb.StatusCode_OK); err != nil {
			_ = s.Reset()
			return
		}
	}
	_ = s.Close()
}

// honestRange is what an honest server holding the whole chain answers.
func (n *Net) honestRange(origin, amount uint64) []*vk.H {
	var out []*vk.H
	for h := origin; h < origin+amount && h <= n.C.N() && h >= origin; h++ {
		if hd := n.C.At(h); hd != nil {
			out = append(out, hd)
		}
	}
	return out
}

func mutate(h *vk.H, f func(c *vk.H)) *vk.H {
	c := h.Clone()
	f(c)
	c.Hash()
	return c
}

// answer performs the scripted behaviour for a request.
func (n *Net) answer(s network.Stream, req *p2p_pb.HeaderRequest, a Answer) {
	origin, amount := req.GetOrigin(), req.Amount
	var base []*vk.H
	switch {
	case req.GetHash() != nil:
		for _, h := range n.C[1:] {
			if string(h.Hash()) == string(req.GetHash()) {
				base = []*vk.H{h}
			}
		}
	case origin == 0:
		base = []*vk.H{n.C[n.C.N()]}
	default:
		base = n.honestRange(origin, amount)
	}
	if strings.HasPrefix(a.Kind, "special:") {
		h := n.Special[strings.TrimPrefix(a.Kind, "special:")]
		if h == nil {
			_ = writeResp(s, nil, p2p_pb.StatusCode_NOT_FOUND)
			_ = s.Close()
			return
		}
		writeHeaders(s, []*vk.H{h})
		return
	}
	switch a.Kind {
	case "honest":
		if len(base) == 0 {
			_ = writeResp(s, nil, p2p_pb.StatusCode_NOT_FOUND)
			_ = s.Close()
			return
		}
		writeHeaders(s, base)
	case "prefix": // first K headers only
		k := a.K
		if k < 1 {
			k = 1
		}
		if k > len(base) {
			k = len(base)
		}
		writeHeaders(s, base[:k])
	case "shift": // valid headers of a shifted origin
		writeHeaders(s, n.honestRange(uint64(int64(origin)+int64(a.K)), amount))
	case "other-height": // single valid header of another height
		writeHeaders(s, []*vk.H{n.C[3]}) // a fixed, well-formed header that is never the requested one
	case "replay-first": // the chunk right above height a.K (a chunk that belongs elsewhere)
		writeHeaders(s, n.honestRange(uint64(a.K), amount))
	case "reorder":
		hs := append([]*vk.H(nil), base...)
		if len(hs) >= 2 {
			hs[0], hs[1] = hs[1], hs[0]
		}
		writeHeaders(s, hs)
	case "inner-gap": // origin, origin+2, ...
		var hs []*vk.H
		for i, h := range n.honestRange(origin, amount+1) {
			if i != 1 {
				hs = append(hs, h)
			}
		}
		writeHeaders(s, hs)
	case "dup-inside": // origin, origin, origin+1...
		hs := append([]*vk.H(nil), base...)
		if len(hs) >= 2 {
			hs[1] = hs[0]
		}
		writeHeaders(s, hs)
	case "forged": // header at position K has a forged parent link and the rest chains on it
		hs := append([]*vk.H(nil), base...)
		j := a.K
		if j >= len(hs) {
			j = len(hs) - 1
		}
		if j >= 0 && len(hs) > 0 {
			// a forger has no validator keys: the forged headers cannot carry the honest signature
			hs[j] = mutate(hs[j], func(c *vk.H) { c.Prev = []byte("forged-parent"); c.Salt = 99; c.Sig = "evil" })
			for i := j + 1; i < len(hs); i++ {
				p := hs[i-1]
				hs[i] = mutate(hs[i], func(c *vk.H) { c.Prev = p.Hash(); c.Salt = 99; c.Sig = "evil" })
			}
		}
		writeHeaders(s, hs)
	case "evil-sig": // whole chunk signed by someone else (internally linked)
		hs := append([]*vk.H(nil), base...)
		for i := range hs {
			i := i
			hs[i] = mutate(hs[i], func(c *vk.H) {
				c.Sig = "evil"
				if i > 0 {
					c.Prev = hs[i-1].Hash()
				}
			})
		}
		writeHeaders(s, hs)
	case "wrong-chain":
		hs := append([]*vk.H(nil), base...)
		for i := range hs {
			hs[i] = mutate(hs[i], func(c *vk.H) { c.Chain = "other-chain" })
		}
		writeHeaders(s, hs)
	case "empty-chain": // well-formed headers that carry no chain id at all
		hs := append([]*vk.H(nil), base...)
		for i := range hs {
			hs[i] = mutate(hs[i], func(c *vk.H) { c.Chain = "" })
		}
		writeHeaders(s, hs)
	case "invalid": // fails Validate
		hs := append([]*vk.H(nil), base...)
		if len(hs) > 0 {
			hs[len(hs)-1] = mutate(hs[len(hs)-1], func(c *vk.H) { c.Bad = true })
		}
		writeHeaders(s, hs)
	case "garbage-body": // OK status, body is not a header
		_, _ = serde.Write(s, &p2p_pb.HeaderResponse{Body: []byte("\x00\x01garbage"), StatusCode: p2p_pb.StatusCode_OK})
		_ = s.Close()
	case "empty-body":
		_, _ = serde.Write(s, &p2p_pb.HeaderResponse{Body: nil, StatusCode: p2p_pb.StatusCode_OK})
		_ = s.Close()
	case "boom-body": // body makes UnmarshalBinary panic
		_, _ = serde.Write(s, &p2p_pb.HeaderResponse{Body: []byte("BOOM"), StatusCode: p2p_pb.StatusCode_OK})
		_ = s.Close()
	case "malformed-frame": // length prefix + bytes that are not a protobuf message
		_, _ = s.Write([]byte{5, 0xff, 0xff, 0xff, 0xff, 0xff})
		_ = s.Close()
	case "truncated-frame": // length prefix promises more than is sent
		_, _ = s.Write([]byte{100, 1, 2, 3})
		_ = s.Close()
	case "oversized-prefix":
		buf := make([]byte, binary.MaxVarintLen64)
		l := binary.PutUvarint(buf, 1<<30)
		_, _ = s.Write(buf[:l])
		_ = s.Close()
	case "random-bytes":
		_, _ = s.Write([]byte{0x93, 0x27, 0x00, 0xfe, 0x10, 0x42, 0x42, 0x07})
		_ = s.Close()
	case "not-found":
		_ = writeResp(s, nil, p2p_pb.StatusCode_NOT_FOUND)
		_ = s.Close()
	case "unknown-status":
		var h *vk.H
		if len(base) > 0 {
			h = base[0]
		}
		_ = writeResp(s, h, p2p_pb.StatusCode(7))
		_ = s.Close()
	case "negative-status": // the status code is a signed enum on the wire
		var h *vk.H
		if len(base) > 0 {
			h = base[0]
		}
		_ = writeResp(s, h, p2p_pb.StatusCode(-1))
		_ = s.Close()
	case "invalid-status": // status 0 with a proper body
		var h *vk.H
		if len(base) > 0 {
			h = base[0]
		}
		_ = writeResp(s, h, p2p_pb.StatusCode_INVALID)
		_ = s.Close()
	case "zero-length-frame": // a length prefix of 0: a protobuf message with no field at all
		_, _ = s.Write([]byte{0x00})
		_ = s.Close()
	case "empty-close":
		_ = s.Close()
	case "extra": // more responses than asked
		writeHeaders(s, n.honestRange(origin, amount+2))
	case "two-responses": // for single header requests: two OK responses
		if len(base) > 0 {
			writeHeaders(s, []*vk.H{base[0], base[0]})
		} else {
			_ = s.Close()
		}
	case "reset":
		_ = s.Reset()
	case "hang":
		// never answer; the stream is released when the bubble's context ends
		<-n.hang
		_ = s.Reset()
	case "slow": // answer honestly after K seconds
		time.Sleep(time.Duration(a.K) * time.Second)
		writeHeaders(s, base)
	default:
		panic("unknown answer kind " + a.Kind)
	}
}
