package p2px

import (
	"github.com/libp2p/go-libp2p/core/host"
	mocknet "github.com/libp2p/go-libp2p/p2p/net/mock"
)

func mocknetNew() mocknet.Mocknet { return mocknet.New() }

// lineHosts creates n hosts linked in a line h0 - h1 - ... (no other links).
func lineHosts(mn mocknet.Mocknet, n int) ([]host.Host, error) {
	var hs []host.Host
	for i := 0; i < n; i++ {
		h, err := mn.GenPeer()
		if err != nil {
			return nil, err
		}
		hs = append(hs, h)
	}
	for i := 0; i+1 < n; i++ {
		if _, err := mn.LinkPeers(hs[i].ID(), hs[i+1].ID()); err != nil {
			return nil, err
		}
	}
	return hs, nil
}
