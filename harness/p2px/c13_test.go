package p2px

import (
	"context"
	"fmt"
	"sort"
	"strings"
	"testing"
	"time"

	"github.com/celestiaorg/go-header/p2p"
	p2p_pb "github.com/celestiaorg/go-header/p2p/pb"

	"verif/vk"
)

type c13Case struct {
	Method  string   `json:"method"`  // get | getbyheight
	Target  string   `json:"target"`  // present | absent | zero
	ChainID bool     `json:"chainid"` // client configured with the chain id
	Honour  bool     `json:"honour_deadlines"`
	Answers []string `json:"answers"` // per trusted peer
	Order   []int    `json:"order"`   // release order of the peers' answers
	// Warm: one honest request for another height succeeds before the call under test (state that a
	// client may keep between requests - pools, caches - is then populated)
	Warm bool `json:"warm,omitempty"`
}

func (c c13Case) String() string {
	return fmt.Sprintf("%s(%s) chainid=%v dl=%v answers=%v order=%v warm=%v", c.Method, c.Target, c.ChainID, c.Honour, c.Answers, c.Order, c.Warm)
}

var singleCatalogue = []string{
	"honest", "other-height", "wrong-chain", "empty-chain", "invalid", "not-found", "unknown-status", "negative-status", "invalid-status",
	"empty-close", "zero-length-frame", "truncated-frame", "oversized-prefix", "random-bytes", "malformed-frame", "garbage-body", "empty-body",
	"two-responses", "hang", "reset",
}

// validKind: does this answer, taken alone, count as a valid response for the client?
func c13Valid(kind string, c c13Case) bool {
	switch kind {
	case "honest", "two-responses":
		return c.Target == "present"
	case "other-height":
		return c.Target != "zero" // a well-formed header of the right chain, just not the requested one
	case "wrong-chain", "empty-chain":
		return !c.ChainID && c.Target == "present" // without a configured chain id nothing binds the chain
	}
	return false
}

const c13Height = 7

func c13Exec(t *testing.T, run *vk.Run, c c13Case) (done bool, res *vk.H, err error, pan string, elapsed time.Duration, ok bool) {
	run.Inflight(shardOf(t), c)
	br := vk.Bubble(t, func() {
		script := func(idx int, req *p2p_pb.HeaderRequest, attempt int) Answer {
			if c.Warm && req.GetOrigin() == c13Height+2 {
				return Answer{Kind: "honest"}
			}
			return Answer{Kind: c.Answers[idx]}
		}
		net, nerr := NewNet(len(c.Answers), c05Chain, c.Honour, script)
		if nerr != nil {
			run.HarnessError("C13 mocknet: %v", nerr)
			return
		}
		defer net.Close()
		for i := range net.Gates {
			net.Gates[i] = make(chan struct{})
		}
		opts := []p2p.Option[p2p.ClientParameters]{p2p.WithRequestTimeout[p2p.ClientParameters](reqTimeout)}
		if c.ChainID {
			opts = append(opts, p2p.WithChainID[p2p.ClientParameters]("vk"))
		}
		ex, eerr := net.NewExchange(net.PeerIDs(), opts...)
		if eerr != nil {
			run.HarnessError("C13 exchange: %v", eerr)
			return
		}
		ctx, cancel := context.WithTimeout(context.Background(), 60*time.Second)
		defer cancel()
		if c.Warm {
			for p := range c.Answers {
				net.Release(p)
			}
			wc := vk.Spawn(func() (*vk.H, error) { return ex.GetByHeight(ctx, c13Height+2) })
			for i := 0; i < 20 && !wc.Done(); i++ {
				vk.Advance(time.Second)
			}
			if !wc.Done() || wc.Err != nil || wc.Val == nil || wc.Val.Ht != c13Height+2 {
				run.HarnessError("C13 warm-up request failed on %s: %v %v", c, wc.Val, wc.Err)
				return
			}
		}
		start := time.Now()
		call := vk.Spawn(func() (*vk.H, error) {
			switch {
			case c.Method == "get" && c.Target == "present":
				return ex.Get(ctx, c05Chain[c13Height].Hash())
			case c.Method == "get" && c.Target == "absent":
				return ex.Get(ctx, []byte("no-such-hash-no-such-hash-000000"))
			case c.Method == "get":
				return ex.Get(ctx, nil)
			case c.Target == "present":
				return ex.GetByHeight(ctx, c13Height)
			case c.Target == "absent":
				return ex.GetByHeight(ctx, c05N+5)
			}
			return ex.GetByHeight(ctx, 0)
		})
		vk.Settle()
		for _, p := range c.Order {
			net.Release(p)
			vk.Settle()
		}
		for i := 0; i < 70 && !call.Done(); i++ {
			vk.Advance(time.Second)
		}
		done = call.Done()
		if done {
			res, err, pan = call.Val, call.Err, call.Panic
			if pan != "" {
				pan += "\n" + call.Stack
			}
		}
		elapsed = time.Since(start)
		sctx, sc := context.WithTimeout(context.Background(), 10*time.Second)
		_ = ex.Stop(sctx)
		sc()
		ok = true
	})
	if br.Panic != "" {
		run.HarnessError("C13 bubble panic on %s: %s\n%s", c, br.Panic, br.Stack)
		ok = false
	}
	return
}

func c13Check(run *vk.Run, c c13Case, done bool, res *vk.H, err error, pan string, elapsed time.Duration) {
	ks := append([]string(nil), c.Answers...)
	sort.Strings(ks)
	feat := fmt.Sprintf("%s,%s,chainid=%v,dl=%v,answers=%s", c.Method, c.Target, c.ChainID, c.Honour, strings.Join(ks, "+"))
	viol := func(clause, format string, a ...any) {
		run.Violate("C13/"+clause+"/"+feat, c, "%s: %s", c, fmt.Sprintf(format, a...))
	}
	outcome := "error"
	switch {
	case !done:
		outcome = "hang"
	case pan != "":
		outcome = "panic"
	case err == nil && res != nil:
		outcome = fmt.Sprintf("ok(h%d,%s)", res.Ht, res.Chain)
	case err == nil:
		outcome = "zero-nil"
	}
	run.Distinct(feat + "|" + outcome)
	if !done {
		viol("hang", "call still blocked %v (virtual) after issue, past the caller's 60s deadline", elapsed)
		return
	}
	if pan != "" {
		viol("panic", "client panicked: %s", pan)
		return
	}
	// which answer is the first valid one in arrival order
	firstValid := ""
	anyValid := false
	for _, p := range c.Order {
		if c13Valid(c.Answers[p], c) {
			anyValid = true
			if firstValid == "" {
				firstValid = c.Answers[p]
			}
		}
	}
	if err == nil {
		if res == nil {
			viol("zero-header-nil-error", "returned a zero header with a nil error")
			return
		}
		if res.Validate() != nil {
			viol("unvalidated-header", "returned a header that fails Validate")
		}
		if c.ChainID && !strings.EqualFold(res.Chain, "vk") {
			viol("wrong-chain-id", "returned a header of chain %q with chain id vk configured", res.Chain)
		}
		if c.Method == "get" {
			want := c05Chain[c13Height].Hash()
			if c.Target != "present" || string(res.Hash()) != string(want) {
				viol("hash-mismatch", "Get returned header %s whose hash is not the requested one", res)
			}
		}
		if !anyValid {
			viol("invented-header", "no peer sent a valid response but the call returned %s", res)
		}
		return
	}
	// error: must not happen when a valid answer arrived (GetByHeight: first valid wins; Get: only if
	// the first valid answer is the honest one)
	if c.Target == "zero" {
		return
	}
	if c.Method == "getbyheight" && anyValid {
		viol("valid-answer-ignored", "a peer answered validly (%s) but the call failed with %v", firstValid, err)
	}
	if c.Method == "get" && (firstValid == "honest" || firstValid == "two-responses") {
		viol("valid-answer-ignored", "the first valid answer was the honest one but Get failed with %v", err)
	}
}

func perms(n int) [][]int {
	if n == 1 {
		return [][]int{{0}}
	}
	var out [][]int
	for _, p := range perms(n - 1) {
		for i := 0; i <= len(p); i++ {
			q := append(append(append([]int(nil), p[:i]...), n-1), p[i:]...)
			out = append(out, q)
		}
	}
	return out
}

func identity(n int) []int {
	o := make([]int, n)
	for i := range o {
		o[i] = i
	}
	return o
}

func TestC13(t *testing.T) {
	run := vk.NewRun("C13", "fault_enumeration")
	defer run.Finish()
	run.SetRule("real Exchange.Get/GetByHeight over mocknet against 1..3 (thorough: 4) scripted trusted peers: every assignment of per-peer answers from a 20-entry catalogue (honest, other header, wrong chain, invalid, NOT_FOUND, unknown/INVALID status, empty close, truncated/oversized/malformed frame, random bytes, garbage/empty body, two responses, hang, reset) x {Get,GetByHeight} x target {present, absent, zero} x chain id {set, unset}; arrival order imposed by release gates (all permutations for the reduced catalogue); distinct = (method, target, multiset of answers, outcome)")
	run.Assume("a header type whose UnmarshalBinary itself panics is excluded here (type-level bug); height binding of GetByHeight answers is not part of the statement")

	var rc c13Case
	if is, err := vk.ReplayCase(&rc); is {
		if err != nil {
			t.Fatal(err)
		}
		done, res, e, pan, el, ok := c13Exec(t, run, rc)
		if ok {
			c13Check(run, rc, done, res, e, pan, el)
			fmt.Printf("replayed %s: done=%v res=%v err=%v panic=%q elapsed=%v violations=%d\n", rc, done, res, e, pan, el, run.Violations())
		}
		return
	}
	dl := vk.NewDeadline(vk.Pick(run, 10*time.Minute, 45*time.Minute))
	var cases []c13Case
	add := func(answers []string, order []int) {
		for _, m := range []string{"get", "getbyheight"} {
			for _, tg := range []string{"present", "absent", "zero"} {
				if tg != "present" && len(answers) > 2 {
					continue
				}
				for _, cid := range []bool{true, false} {
					if !cid && len(answers) > 2 {
						continue
					}
					for _, honour := range []bool{true, false} {
						if !honour && len(answers) > 2 && !run.Thorough() {
							continue
						}
						cases = append(cases, c13Case{Method: m, Target: tg, ChainID: cid, Honour: honour, Answers: append([]string(nil), answers...), Order: append([]int(nil), order...)})
						if len(answers) == 1 {
							cases = append(cases, c13Case{Method: m, Target: tg, ChainID: cid, Honour: honour, Answers: append([]string(nil), answers...), Order: append([]int(nil), order...), Warm: true})
						}
					}
				}
			}
		}
	}
	cat := singleCatalogue
	for _, a := range cat {
		add([]string{a}, []int{0})
	}
	for _, a := range cat {
		for _, b := range cat {
			add([]string{a, b}, []int{0, 1})
			add([]string{a, b}, []int{1, 0})
		}
	}
	reduced := []string{"honest", "other-height", "wrong-chain", "not-found", "random-bytes", "hang"}
	if run.Thorough() {
		for _, a := range cat {
			for _, b := range cat {
				for _, c := range cat {
					add([]string{a, b, c}, identity(3))
				}
			}
		}
	} else {
		// quick: third peer ranges over the whole catalogue, the first two over the reduced one
		for _, a := range reduced {
			for _, b := range reduced {
				for _, c := range cat {
					add([]string{a, b, c}, identity(3))
				}
			}
		}
	}
	for _, a := range reduced {
		for _, b := range reduced {
			for _, c := range reduced {
				for _, p := range perms(3) {
					add([]string{a, b, c}, p)
				}
			}
		}
	}
	if run.Thorough() {
		for i := 0; i < 4; i++ {
			for j := i; j < 4; j++ {
				for _, a := range cat {
					for _, b := range cat {
						ans := []string{"honest", "honest", "honest", "honest"}
						ans[i], ans[j] = a, b
						add(ans, identity(4))
						add(ans, []int{3, 2, 1, 0})
					}
				}
			}
		}
	}
	run.Set("cases", len(cases))
	q := vk.NewWorkQueue(len(cases))
	vk.Shards(t, vk.NumShards(), func(t *testing.T, shard int) {
		for {
			if dl.Hit() {
				run.NotExhaustive("time budget hit")
				return
			}
			i, ok := q.Next()
			if !ok {
				return
			}
			c := cases[i]
			done, res, err, pan, el, ok2 := c13Exec(t, run, c)
			if !ok2 {
				continue
			}
			run.AddEval(1)
			c13Check(run, c, done, res, err, pan, el)
			if i%509 == 0 {
				run.Sample(c.String())
			}
		}
	})
	for i := 0; i < len(cases); i += 1 + len(cases)/8 {
		d1, r1, e1, _, _, ok1 := c13Exec(t, run, cases[i])
		d2, r2, e2, _, _, ok2 := c13Exec(t, run, cases[i])
		if ok1 && ok2 && (d1 != d2 || fmt.Sprint(r1) != fmt.Sprint(r2) || (e1 == nil) != (e2 == nil)) {
			run.HarnessError("replay divergence on %s", cases[i])
		}
		run.AddValidated(1)
	}
}
