package p2px

import (
	"context"
	"encoding/binary"
	"errors"
	"fmt"
	"io"
	"math"
	"sync"
	"testing"
	"time"

	"github.com/ipfs/go-datastore"
	"github.com/libp2p/go-libp2p/core/host"
	"github.com/libp2p/go-libp2p/core/peer"
	mocknet "github.com/libp2p/go-libp2p/p2p/net/mock"

	"github.com/celestiaorg/go-libp2p-messenger/serde"

	"github.com/celestiaorg/go-header"
	"github.com/celestiaorg/go-header/p2p"
	p2p_pb "github.com/celestiaorg/go-header/p2p/pb"
	"github.com/celestiaorg/go-header/store"

	"verif/vk"
)

// recStore records what the server asks its store for.
type recStore struct {
	header.Store[*vk.H]
	mu    sync.Mutex
	calls []recCall
	// every call of the server into its store is counted; right after the growAt-th one has computed
	// its (now stale) answer, grow() runs: the store changes between two calls of one request
	ticks  int
	growAt int
	grow   func()
	// stallAt: the stallAt-th store call (1-based) does not answer until its context ends
	stallAt              int
	stallBegan, stallEnd bool
}

// stalled reports whether the call about to be made is the one that stalls, and if so waits for ctx.
func (r *recStore) stalled(ctx context.Context) bool {
	r.mu.Lock()
	hit := r.stallAt != 0 && r.ticks+1 == r.stallAt
	r.mu.Unlock()
	if hit {
		r.mu.Lock()
		r.stallBegan = true
		r.mu.Unlock()
		<-ctx.Done()
		r.mu.Lock()
		r.stallEnd = true
		r.mu.Unlock()
		r.tick()
	}
	return hit
}

func (r *recStore) tick() {
	r.mu.Lock()
	r.ticks++
	fire := r.growAt != 0 && r.ticks == r.growAt && r.grow != nil
	r.mu.Unlock()
	if fire {
		r.grow()
	}
}

func (r *recStore) Head(ctx context.Context, o ...header.HeadOption[*vk.H]) (*vk.H, error) {
	if r.stalled(ctx) {
		return nil, ctx.Err()
	}
	defer r.tick()
	return r.Store.Head(ctx, o...)
}
func (r *recStore) Tail(ctx context.Context) (*vk.H, error) {
	if r.stalled(ctx) {
		return nil, ctx.Err()
	}
	defer r.tick()
	return r.Store.Tail(ctx)
}
func (r *recStore) HasAt(ctx context.Context, h uint64) bool {
	defer r.tick()
	return r.Store.HasAt(ctx, h)
}
func (r *recStore) Has(ctx context.Context, h header.Hash) (bool, error) {
	defer r.tick()
	return r.Store.Has(ctx, h)
}
func (r *recStore) Height() uint64 {
	defer r.tick()
	return r.Store.Height()
}

type recCall struct {
	Op       string
	From, To uint64
}

func (r *recStore) rec(op string, from, to uint64) {
	r.mu.Lock()
	r.calls = append(r.calls, recCall{op, from, to})
	r.mu.Unlock()
}

func (r *recStore) GetRange(ctx context.Context, from, to uint64) ([]*vk.H, error) {
	r.rec("GetRange", from, to)
	if r.stalled(ctx) {
		return nil, ctx.Err()
	}
	defer r.tick()
	return r.Store.GetRange(ctx, from, to)
}
func (r *recStore) GetByHeight(ctx context.Context, h uint64) (*vk.H, error) {
	r.rec("GetByHeight", h, h+1)
	if r.stalled(ctx) {
		return nil, ctx.Err()
	}
	defer r.tick()
	return r.Store.GetByHeight(ctx, h)
}
func (r *recStore) GetRangeByHeight(ctx context.Context, from *vk.H, to uint64) ([]*vk.H, error) {
	r.rec("GetRangeByHeight", from.Height()+1, to)
	defer r.tick()
	return r.Store.GetRangeByHeight(ctx, from, to)
}
func (r *recStore) Get(ctx context.Context, hash header.Hash) (*vk.H, error) {
	r.rec("Get", 0, 0)
	if r.stalled(ctx) {
		return nil, ctx.Err()
	}
	defer r.tick()
	return r.Store.Get(ctx, hash)
}

// Rollback (c10Case.Rollback != ""): a two-request history on one server instance. The first request (Kind
// "head" | "range" | "hash", always touching the head) is answered, then the store's head side is rolled back to
// RollTo and re-grown on another fork up to the old height, then the second request (Rollback = "head" | "range" |
// "hash-new" | "hash-old") is sent: every OK body must be the store's current header.
type c10Case struct {
	Tail   uint64 `json:"tail"`
	Head   uint64 `json:"head"` // 0 = empty store
	Kind   string `json:"kind"` // range | hash | raw
	Origin uint64 `json:"origin,omitempty"`
	Amount uint64 `json:"amount,omitempty"`
	Hash   string `json:"hash,omitempty"` // present | pruned | unknown | empty | huge
	Raw    string `json:"raw,omitempty"`
	// GrowAt/GrowBy: right after the GrowAt-th store call of the request (1-based; 0 = never) the store
	// receives GrowBy more headers (the node keeps syncing while it serves)
	Rollback string `json:"rollback,omitempty"`
	RollTo   uint64 `json:"roll_to,omitempty"`
	GrowAt   int    `json:"grow_at,omitempty"`
	GrowBy   uint64 `json:"grow_by,omitempty"`
	// StallAt: the StallAt-th store call of the request (1-based; 0 = never) blocks until the context
	// the server gave it ends
	StallAt int `json:"stall_at,omitempty"`
}

func (c c10Case) String() string {
	switch c.Kind {
	case "range":
		g := ""
		if c.GrowAt != 0 {
			g = fmt.Sprintf(" +%d headers after store call %d", c.GrowBy, c.GrowAt)
		}
		return fmt.Sprintf("store[%d..%d] range(origin=%d,amount=%d)%s", c.Tail, c.Head, c.Origin, c.Amount, g)
	case "hash":
		return fmt.Sprintf("store[%d..%d] hash(%s)", c.Tail, c.Head, c.Hash)
	}
	return fmt.Sprintf("store[%d..%d] raw(%s)", c.Tail, c.Head, c.Raw)
}

var c10Chain = vk.GenChain(vk.ChainSpec{N: 210, Step: time.Second})

type c10Out struct {
	resps []*p2p_pb.HeaderResponse
	ticks int
	// the stalled store call was reached / was released by the context the server gave it
	stallBegan, stallEnd bool
	readErr              string
	elapsed              time.Duration
	calls                []recCall
	reads                int
	done                 bool
}

func c10Exec(t *testing.T, run *vk.Run, c c10Case) (out c10Out, ok bool) {
	run.Inflight(shardOf(t), c)
	br := vk.Bubble(t, func() {
		mn, err := mocknet.FullMeshConnected(2)
		if err != nil {
			run.HarnessError("C10 mocknet: %v", err)
			return
		}
		defer mn.Close()
		hosts := mn.Hosts()
		client, srvHost := hosts[0], &dlHost{Host: hosts[1], honour: true}
		ds := vk.NewLogDS()
		st, err := store.NewStore[*vk.H](ds.Wrap(false), store.WithWriteBatchSize(16))
		if err != nil {
			run.HarnessError("C10 store: %v", err)
			return
		}
		bg := context.Background()
		if err := st.Start(bg); err != nil {
			run.HarnessError("C10 store start: %v", err)
			return
		}
		defer st.Stop(bg)
		if c.Head > 0 {
			_ = st.Append(bg, c10Chain.Slice(1, c.Head)...)
			vk.Settle()
			_ = st.Sync(bg)
			if c.Tail > 1 {
				if err := st.DeleteRange(bg, 1, c.Tail); err != nil {
					run.HarnessError("C10 prune: %v", err)
					return
				}
			}
			// restart-like: drop warm caches by reopening over the same datastore
			_ = st.Stop(bg)
			st, _ = store.NewStore[*vk.H](ds.Wrap(false), store.WithWriteBatchSize(16))
			_ = st.Start(bg)
		}
		rs := &recStore{Store: st, growAt: c.GrowAt, stallAt: c.StallAt}
		if c.GrowAt != 0 {
			stNow := st
			rs.grow = func() {
				_ = stNow.Append(bg, c10Chain.Slice(c.Head+1, c.Head+c.GrowBy)...)
				_ = stNow.Sync(bg)
			}
		}
		srv, err := p2p.NewExchangeServer[*vk.H](srvHost, rs, p2p.WithNetworkID[p2p.ServerParameters](netID))
		if err != nil {
			run.HarnessError("C10 server: %v", err)
			return
		}
		_ = srv.Start(bg)
		defer srv.Stop(bg)
		readsBefore := ds.Reads
		sctx, cancel := context.WithTimeout(bg, 200*time.Second)
		defer cancel()
		s, err := client.NewStream(sctx, srvHost.ID(), protoID)
		if err != nil {
			run.HarnessError("C10 stream: %v", err)
			return
		}
		start := time.Now()
		// write the request
		switch c.Kind {
		case "range":
			_, _ = serde.Write(s, &p2p_pb.HeaderRequest{Data: &p2p_pb.HeaderRequest_Origin{Origin: c.Origin}, Amount: c.Amount})
		case "hash":
			var hsh []byte
			switch c.Hash {
			case "present":
				hsh = c10Chain[(c.Tail+c.Head)/2].Hash()
			case "pruned":
				hsh = c10Chain[1].Hash()
			case "unknown":
				hsh = []byte("unknown-hash-unknown-hash-000000")
			case "empty":
				hsh = []byte{}
			case "huge":
				hsh = make([]byte, 1<<19)
			}
			_, _ = serde.Write(s, &p2p_pb.HeaderRequest{Data: &p2p_pb.HeaderRequest_Hash{Hash: hsh}, Amount: 1})
		case "raw":
			switch c.Raw {
			case "empty":
			case "one-byte":
				_, _ = s.Write([]byte{0x01})
			case "prefix-only":
				_, _ = s.Write([]byte{0x20})
			case "truncated":
				_, _ = s.Write([]byte{0x10, 0x08, 0x01})
			case "oneof-unset":
				_, _ = serde.Write(s, &p2p_pb.HeaderRequest{Amount: 3})
			case "random":
				_, _ = s.Write([]byte{0x1f, 0x93, 0x27, 0x00, 0xfe, 0x10, 0x42, 0x42, 0x07, 0x99, 0x01, 0x02, 0x03, 0x04, 0x05, 0x06, 0x07, 0x08, 0x09, 0x0a, 0x0b, 0x0c, 0x0d, 0x0e, 0x0f, 0x10, 0x11, 0x12, 0x13, 0x14, 0x15, 0x16})
			case "oversized-prefix":
				buf := make([]byte, binary.MaxVarintLen64)
				l := binary.PutUvarint(buf, 1<<30)
				_, _ = s.Write(buf[:l])
			case "no-close": // a valid prefix and then silence: the server's read deadline must fire
				_, _ = s.Write([]byte{0x20, 0x08})
			}
		}
		if c.Raw != "no-close" {
			_ = s.CloseWrite()
		}
		call := vk.Spawn(func() (int, error) {
			for i := 0; i < 200; i++ {
				resp := new(p2p_pb.HeaderResponse)
				if _, err := serde.Read(s, resp); err != nil {
					if err != io.EOF {
						out.readErr = err.Error()
					}
					return 0, nil
				}
				out.resps = append(out.resps, resp)
			}
			return 0, nil
		})
		for i := 0; i < 150 && !call.Done(); i++ {
			vk.Advance(time.Second)
		}
		out.done = call.Done()
		out.elapsed = time.Since(start)
		_ = s.Reset()
		vk.Settle()
		rs.mu.Lock()
		out.calls = append([]recCall(nil), rs.calls...)
		out.ticks = rs.ticks
		rs.mu.Unlock()
		if c.StallAt != 0 {
			// give the server's own request timeout every chance (virtual time) before looking
			for i := 0; i < 200; i++ {
				rs.mu.Lock()
				ended := rs.stallEnd || !rs.stallBegan
				rs.mu.Unlock()
				if ended {
					break
				}
				vk.Advance(time.Second)
			}
			rs.mu.Lock()
			out.stallBegan, out.stallEnd = rs.stallBegan, rs.stallEnd
			rs.mu.Unlock()
		}
		out.reads = ds.Reads - readsBefore
		ok = true
	})
	if br.Panic != "" {
		run.HarnessError("C10 bubble panic on %s: %s\n%s", c, br.Panic, br.Stack)
		ok = false
	}
	return
}

func relPos(c c10Case, h uint64) string {
	switch {
	case c.Head == 0:
		return "empty"
	case h == 0:
		return "0"
	case h < c.Tail:
		return "<tail"
	case h == c.Tail:
		return "tail"
	case h < c.Head:
		return "mid"
	case h == c.Head:
		return "head"
	}
	return ">head"
}

func c10Check(run *vk.Run, c c10Case, o c10Out) {
	feat := c.Kind
	switch c.Kind {
	case "range":
		end := c.Origin + c.Amount - 1
		wrap := ""
		if c.Amount > 0 && end < c.Origin {
			wrap = ",wraps"
		}
		size := "<=64"
		if c.Amount > 64 {
			size = ">64"
		}
		if c.Amount == 0 {
			size = "0"
		}
		feat = fmt.Sprintf("range,origin=%s,end=%s,amount%s%s", relPos(c, c.Origin), relPos(c, end), size, wrap)
	case "hash":
		feat = "hash," + c.Hash
	case "raw":
		feat = "raw," + c.Raw
	}
	if c.Head == 0 {
		feat += ",emptystore"
	}
	if c.GrowAt != 0 {
		feat += ",store-grows"
	}
	if c.StallAt != 0 {
		feat += ",store-stalls"
	}
	newHead := c.Head + c.GrowBy
	viol := func(clause, format string, a ...any) {
		run.Violate("C10/"+clause+"/"+feat, c, "%s: %s", c, fmt.Sprintf(format, a...))
	}
	outcome := fmt.Sprintf("resps=%d,err=%v", len(o.resps), o.readErr != "")
	if len(o.resps) > 0 {
		outcome += fmt.Sprintf(",code=%d", o.resps[0].StatusCode)
	}
	run.Distinct(feat + "|" + outcome)
	if !o.done {
		viol("hang", "no reply, EOF or reset within %v (virtual)", o.elapsed)
		return
	}
	if o.stallBegan && !o.stallEnd {
		viol("handler-hangs-beyond-timeouts", "store call %d of the request stalled; more than 200s (virtual) later the context the server gave it has still not ended: the handler is stuck until Stop", c.StallAt)
	}
	// work bound
	asked := uint64(0)
	budget := c.Amount
	if budget > 64 {
		budget = 64
	}
	if c.Kind != "range" {
		budget = 1
	}
	for _, call := range o.calls {
		switch call.Op {
		case "GetRange", "GetRangeByHeight":
			if call.To > call.From {
				asked += call.To - call.From
			}
			if c.Kind == "range" && (call.From < c.Origin || (call.To-1) > c.Origin+c.Amount-1) {
				viol("reads-outside-requested-range", "server called %s(%d,%d) for a request of [%d,%d]", call.Op, call.From, call.To, c.Origin, c.Origin+c.Amount-1)
			}
		case "GetByHeight":
			asked++
			if c.Kind == "range" && (call.From < c.Origin || call.From > c.Origin+c.Amount-1) {
				viol("reads-outside-requested-range", "server called GetByHeight(%d) for a request of [%d,%d]", call.From, c.Origin, c.Origin+c.Amount-1)
			}
		case "Get":
			asked++
		}
	}
	if asked > budget {
		viol("reads-more-than-requested", "server asked its store for %d headers, the request allows at most %d (calls %v)", asked, budget, o.calls)
	}
	if uint64(o.reads) > 3*budget+8 {
		viol("datastore-reads-unbounded", "%d datastore reads for a request allowing %d headers", o.reads, budget)
	}
	// reply shape
	if len(o.resps) == 0 {
		return // reset / plain close: always allowed
	}
	if o.resps[0].StatusCode == p2p_pb.StatusCode_NOT_FOUND {
		if len(o.resps) != 1 {
			viol("bad-reply-shape", "NOT_FOUND followed by %d more responses", len(o.resps)-1)
		}
		return
	}
	var got []*vk.H
	for i, r := range o.resps {
		if r.StatusCode != p2p_pb.StatusCode_OK {
			viol("bad-reply-shape", "response %d has status %d inside an OK stream", i, r.StatusCode)
			return
		}
		h := new(vk.H)
		if err := h.UnmarshalBinary(r.Body); err != nil {
			viol("undecodable-body", "response %d: %v", i, err)
			return
		}
		got = append(got, h)
	}
	inStore := func(h uint64) bool { return c.Head != 0 && h >= c.Tail && h <= newHead }
	switch c.Kind {
	case "range":
		if c.Origin == 0 {
			if len(got) != 1 || got[0].Ht < c.Head || got[0].Ht > newHead || string(got[0].Hash()) != string(c10Chain[got[0].Ht].Hash()) {
				viol("wrong-head", "head request answered with %v, store head is %d", vk.Heights(got), c.Head)
			}
			return
		}
		for i, h := range got {
			want := c.Origin + uint64(i)
			if h.Ht != want || !inStore(want) || string(h.Hash()) != string(c10Chain[want].Hash()) {
				viol("wrong-headers", "OK responses carry heights %v, want the store's headers %d,%d,...", vk.Heights(got), c.Origin, c.Origin+1)
				return
			}
		}
		if len(got) > 64 {
			viol("more-than-max-range-request-size", "%d OK responses for one request (MaxRangeRequestSize is 64)", len(got))
		}
		wantK := c.Amount
		if c.Origin+c.Amount-1 > c.Head {
			wantK = c.Head - c.Origin + 1
		}
		maxK := c.Amount
		if c.Origin+c.Amount-1 > newHead {
			maxK = newHead - c.Origin + 1
		}
		if c.GrowAt != 0 && (uint64(len(got)) < wantK || uint64(len(got)) > maxK) {
			viol("wrong-count", "%d OK responses, want between %d and %d (amount %d, store head %d growing to %d)", len(got), wantK, maxK, c.Amount, c.Head, newHead)
		}
		if c.GrowAt == 0 && uint64(len(got)) != wantK {
			viol("wrong-count", "%d OK responses, want %d (amount %d, store head %d)", len(got), wantK, c.Amount, c.Head)
		}
	case "hash":
		if c.Hash != "present" || len(got) != 1 || string(got[0].Hash()) != string(c10Chain[(c.Tail+c.Head)/2].Hash()) {
			viol("wrong-header-for-hash", "hash request (%s) answered with %v", c.Hash, vk.Heights(got))
		}
	case "raw":
		if c.Raw != "oneof-unset" || len(got) != 0 {
			viol("garbage-request-answered", "raw request %s got OK responses %v", c.Raw, vk.Heights(got))
		}
	}
}

func TestC10(t *testing.T) {
	run := vk.NewRun("C10", "model_checking")
	defer run.Finish()
	run.SetRule("real ExchangeServer over a real pruned store.Store (tail > 1) behind a recording proxy, requests written as raw frames on a mocknet stream: all (origin, amount) pairs over {0,1,tail-1,tail,tail+1,mid,head-1,head,head+1,head+64,2^64-2,2^64-1} x {0,1,2,63,64,65,head-tail+5,2^63,2^64-1}, hash requests {present,pruned,unknown,empty,512KiB}, raw byte strings {empty, one byte, prefix only, truncated, oneof unset, random, oversized prefix, silent}; deviation: for range requests on the small stores the store grows by {3,100} headers right after the k-th store call of the request, for every k the fault-free run makes, and the k-th store call stalls until the context the server gave it ends; two-request histories on one server instance {head, range ending at the head, hash of the head} x head-side rollback of 1 or 3 headers re-grown on another fork x {head, range, hash of the new head, hash of the deleted head}: every OK body is the store's current header; distinct = (request class relative to tail/head, reply shape)")
	run.Assume("work is measured as headers requested from the store proxy and datastore reads under the real store")
	_ = datastore.ErrNotFound

	var rc c10Case
	if is, err := vk.ReplayCase(&rc); is {
		if err != nil {
			t.Fatal(err)
		}
		if rc.Rollback != "" {
			c10RollbackExec(t, run, rc)
			fmt.Printf("replayed %+v: violations=%d\n", rc, run.Violations())
			return
		}
		if o, ok := c10Exec(t, run, rc); ok {
			c10Check(run, rc, o)
			fmt.Printf("replayed %s: resps=%d readErr=%q calls=%v reads=%d violations=%d\n", rc, len(o.resps), o.readErr, o.calls, o.reads, run.Violations())
		}
		return
	}
	dl := vk.NewDeadline(vk.Pick(run, 10*time.Minute, 45*time.Minute))
	var cases []c10Case
	// one store holds more than MaxRangeRequestSize headers so that the 64-header cap is observable
	stores := [][2]uint64{{5, 30}, {0, 0}, {1, 12}, {20, 150}}
	if run.Thorough() {
		stores = append(stores, [2]uint64{40, 200}, [2]uint64{1, 70})
	}
	for _, sth := range stores {
		tl, hd := sth[0], sth[1]
		origins := []uint64{0, 1, tl - 1, tl, tl + 1, (tl + hd) / 2, hd - 1, hd, hd + 1, hd + 64, math.MaxUint64 - 1, math.MaxUint64}
		amounts := []uint64{0, 1, 2, 63, 64, 65, hd - tl + 5, 1 << 63, math.MaxUint64}
		seen := map[[2]uint64]bool{}
		for _, o := range origins {
			for _, a := range amounts {
				if seen[[2]uint64{o, a}] {
					continue
				}
				seen[[2]uint64{o, a}] = true
				cases = append(cases, c10Case{Tail: tl, Head: hd, Kind: "range", Origin: o, Amount: a})
			}
		}
		for _, h := range []string{"present", "pruned", "unknown", "empty", "huge"} {
			if (hd == 0 && h == "present") || (tl <= 1 && h == "pruned") {
				continue
			}
			cases = append(cases, c10Case{Tail: tl, Head: hd, Kind: "hash", Hash: h})
		}
		for _, r := range []string{"empty", "one-byte", "prefix-only", "truncated", "oneof-unset", "random", "oversized-prefix", "no-close"} {
			cases = append(cases, c10Case{Tail: tl, Head: hd, Kind: "raw", Raw: r})
		}
	}
	// deviation: the store grows between two store calls of one request; positions are discovered
	// from the fault-free run of the same request (number of store calls it makes)
	var growBases []c10Case
	for _, c := range cases {
		if c.Kind == "range" && c.Head != 0 && c.Head <= 30 && c.Amount >= 1 && c.Amount <= 65 && c.Origin >= 1 && c.Origin <= c.Head+1 {
			growBases = append(growBases, c)
		}
	}
	var gmu sync.Mutex
	gq := vk.NewWorkQueue(len(growBases))
	vk.Shards(t, vk.NumShards(), func(t *testing.T, shard int) {
		for {
			i, ok := gq.Next()
			if !ok || dl.Hit() {
				return
			}
			o, ok2 := c10Exec(t, run, growBases[i])
			if !ok2 {
				continue
			}
			var add []c10Case
			for k := 1; k <= o.ticks; k++ {
				if growBases[i].Amount <= 2 {
					sc := growBases[i]
					sc.StallAt = k
					add = append(add, sc)
				}
				for _, by := range []uint64{3, 100} {
					gc := growBases[i]
					gc.GrowAt, gc.GrowBy = k, by
					add = append(add, gc)
				}
			}
			gmu.Lock()
			cases = append(cases, add...)
			gmu.Unlock()
		}
	})
	// two-request histories on one server instance with a head-side rollback and re-growth on another fork in between
	for _, first := range []string{"head", "range", "hash"} {
		for _, second := range []string{"head", "range", "hash-new", "hash-old"} {
			for _, depth := range []uint64{1, 3} {
				rc := c10Case{Kind: first, Rollback: second, Tail: 5, Head: 30, RollTo: 30 - depth + 1}
				c10RollbackExec(t, run, rc)
				run.AddEval(1)
			}
		}
	}
	run.Set("store_grows_cases", len(cases))
	run.Set("cases", len(cases))
	q := vk.NewWorkQueue(len(cases))
	vk.Shards(t, vk.NumShards(), func(t *testing.T, shard int) {
		for {
			if dl.Hit() {
				run.NotExhaustive("time budget hit")
				return
			}
			i, ok := q.Next()
			if !ok {
				return
			}
			o, ok2 := c10Exec(t, run, cases[i])
			if !ok2 {
				continue
			}
			run.AddEval(1)
			c10Check(run, cases[i], o)
			if i%83 == 0 {
				run.Sample(cases[i].String())
			}
		}
	})
	for i := 0; i < len(cases); i += 1 + len(cases)/8 {
		o1, ok1 := c10Exec(t, run, cases[i])
		o2, ok2 := c10Exec(t, run, cases[i])
		if ok1 && ok2 && (len(o1.resps) != len(o2.resps) || fmt.Sprint(o1.calls) != fmt.Sprint(o2.calls)) {
			run.HarnessError("replay divergence on %s", cases[i])
		}
		run.AddValidated(1)
	}
}

// c10Request sends one request on a fresh stream and returns the decoded OK bodies and the status codes.
func c10Request(client host.Host, srv peer.ID, req *p2p_pb.HeaderRequest) (hs []*vk.H, codes []p2p_pb.StatusCode, err error) {
	ctx, cancel := context.WithTimeout(context.Background(), 100*time.Second)
	defer cancel()
	s, err := client.NewStream(ctx, srv, protoID)
	if err != nil {
		return nil, nil, err
	}
	defer s.Close()
	if _, err := serde.Write(s, req); err != nil {
		return nil, nil, err
	}
	_ = s.CloseWrite()
	call := vk.Spawn(func() (int, error) {
		for i := 0; i < 100; i++ {
			resp := new(p2p_pb.HeaderResponse)
			if _, err := serde.Read(s, resp); err != nil {
				return 0, nil
			}
			codes = append(codes, resp.StatusCode)
			if resp.StatusCode == p2p_pb.StatusCode_OK {
				h := &vk.H{}
				if uerr := h.UnmarshalBinary(resp.Body); uerr != nil {
					return 0, uerr
				}
				hs = append(hs, h)
			}
		}
		return 0, nil
	})
	for i := 0; i < 120 && !call.Done(); i++ {
		vk.Settle()
		if !call.Done() {
			vk.Advance(time.Second)
		}
	}
	if !call.Done() {
		return nil, nil, errors.New("no end of stream")
	}
	return hs, codes, call.Err
}

// c10RollbackExec runs one two-request history (see c10Case.Rollback).
func c10RollbackExec(t *testing.T, run *vk.Run, c c10Case) {
	run.Inflight(shardOf(t), c)
	feat := fmt.Sprintf("rollback,first=%s,second=%s,depth=%d", c.Kind, c.Rollback, c.Head-c.RollTo)
	viol := func(clause, format string, a ...any) {
		run.Violate("C10/"+clause+"/"+feat, c, "%s: %s", feat, fmt.Sprintf(format, a...))
	}
	br := vk.Bubble(t, func() {
		mn, err := mocknet.FullMeshConnected(2)
		if err != nil {
			run.HarnessError("C10 mocknet: %v", err)
			return
		}
		defer mn.Close()
		hosts := mn.Hosts()
		client, srvHost := hosts[0], &dlHost{Host: hosts[1], honour: true}
		st, err := store.NewStore[*vk.H](vk.NewLogDS().Wrap(false), store.WithWriteBatchSize(16))
		if err != nil {
			run.HarnessError("C10 store: %v", err)
			return
		}
		bg := context.Background()
		_ = st.Start(bg)
		defer st.Stop(bg)
		_ = st.Append(bg, c10Chain.Slice(1, c.Head)...)
		vk.Settle()
		_ = st.Sync(bg)
		if c.Tail > 1 {
			_ = st.DeleteRange(bg, 1, c.Tail)
		}
		srv, err := p2p.NewExchangeServer[*vk.H](srvHost, st, p2p.WithNetworkID[p2p.ServerParameters](netID))
		if err != nil {
			run.HarnessError("C10 server: %v", err)
			return
		}
		_ = srv.Start(bg)
		defer srv.Stop(bg)
		mk := func(kind string, cur vk.Chain) *p2p_pb.HeaderRequest {
			switch kind {
			case "head":
				return &p2p_pb.HeaderRequest{Data: &p2p_pb.HeaderRequest_Origin{Origin: 0}, Amount: 1}
			case "range":
				return &p2p_pb.HeaderRequest{Data: &p2p_pb.HeaderRequest_Origin{Origin: c.Head - 3}, Amount: 4}
			case "hash", "hash-new":
				return &p2p_pb.HeaderRequest{Data: &p2p_pb.HeaderRequest_Hash{Hash: cur[c.Head].Hash()}, Amount: 1}
			case "hash-old":
				return &p2p_pb.HeaderRequest{Data: &p2p_pb.HeaderRequest_Hash{Hash: c10Chain[c.Head].Hash()}, Amount: 1}
			}
			return nil
		}
		check := func(when, kind string, hs []*vk.H, codes []p2p_pb.StatusCode, cur vk.Chain) {
			for _, h := range hs {
				if h.Ht == 0 || h.Ht > c.Head || string(h.Hash()) != string(cur[h.Ht].Hash()) {
					viol("serves-header-not-in-store", "%s, %s request: OK reply carries %v, the store holds %v at that height", when, kind, h, cur.At(h.Ht))
				}
			}
			switch kind {
			case "head":
				if len(hs) != 1 || hs[0].Ht != c.Head {
					viol("head-request-not-the-head", "%s: head request answered with %v (codes %v), the store's head is %v", when, hs, codes, cur[c.Head])
				}
			case "range":
				if len(hs) != 4 {
					viol("wrong-headers", "%s: range request [%d..%d] answered with %v (codes %v)", when, c.Head-3, c.Head, vk.Heights(hs), codes)
				}
			case "hash", "hash-new":
				if len(hs) != 1 || hs[0].Ht != c.Head {
					viol("wrong-header-for-hash", "%s: request for the hash of the store's head answered with %v (codes %v)", when, hs, codes)
				}
			case "hash-old":
				if len(hs) != 0 {
					viol("wrong-header-for-hash", "%s: request for the hash of a header that was deleted answered with %v", when, hs)
				}
			}
		}
		hs, codes, err := c10Request(client, srvHost.ID(), mk(c.Kind, c10Chain))
		if err != nil {
			run.HarnessError("C10 rollback first request: %v", err)
			return
		}
		check("before the rollback", c.Kind, hs, codes, c10Chain)
		// roll the head side back and re-grow it on another fork
		fork := c10Chain.Fork(c.RollTo-1, c.Head, c10Chain[1].Sig, 77)
		if err := st.DeleteRange(bg, c.RollTo, c.Head+1); err != nil {
			run.HarnessError("C10 rollback DeleteRange: %v", err)
			return
		}
		_ = st.Append(bg, fork.Slice(c.RollTo, c.Head)...)
		vk.Settle()
		_ = st.Sync(bg)
		hs, codes, err = c10Request(client, srvHost.ID(), mk(c.Rollback, fork))
		if err != nil {
			run.HarnessError("C10 rollback second request: %v", err)
			return
		}
		check("after the rollback", c.Rollback, hs, codes, fork)
		run.Distinct(fmt.Sprintf("%s|%d-ok", feat, len(hs)))
	})
	if br.Panic != "" {
		viol("panic", "%s", br.Panic)
	}
}
