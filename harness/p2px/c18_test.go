package p2px

import (
	"bytes"
	"context"
	"errors"
	"fmt"
	"strings"
	"sync"
	"testing"
	"time"

	"github.com/ipfs/go-datastore"
	dssync "github.com/ipfs/go-datastore/sync"
	"github.com/libp2p/go-libp2p/core/peer"
	"github.com/libp2p/go-libp2p/p2p/net/conngater"
	mocknet "github.com/libp2p/go-libp2p/p2p/net/mock"

	"github.com/celestiaorg/go-header"
	"github.com/celestiaorg/go-header/p2p"

	"verif/vk"
)

// memStore is a boring honest header.Store holding the chain prefix c[1..top].
type memStore struct {
	mu  sync.Mutex
	c   vk.Chain
	top uint64
	// slowOnce: the first range read sleeps this long (virtual)
	slowOnce time.Duration
	// growTo: after the first request the store holds up to growTo
	growTo uint64
	// latency: every range read takes this long (virtual)
	latency time.Duration
	served  int
	onServe func(n int)
}

func (m *memStore) hook() {
	m.mu.Lock()
	m.served++
	n := m.served
	slow := m.slowOnce
	m.slowOnce = 0
	cb := m.onServe
	lat := m.latency
	m.mu.Unlock()
	if lat > 0 {
		time.Sleep(lat)
	}
	if slow > 0 {
		time.Sleep(slow)
	}
	if cb != nil {
		cb(n)
	}
}

func (m *memStore) after() {
	m.mu.Lock()
	if m.growTo > m.top {
		m.top = m.growTo
	}
	m.mu.Unlock()
}

func (m *memStore) Top() uint64 { m.mu.Lock(); defer m.mu.Unlock(); return m.top }

func (m *memStore) Head(context.Context, ...header.HeadOption[*vk.H]) (*vk.H, error) {
	t := m.Top()
	if t == 0 {
		return nil, header.ErrEmptyStore
	}
	return m.c[t], nil
}
func (m *memStore) Tail(context.Context) (*vk.H, error) {
	if m.Top() == 0 {
		return nil, header.ErrEmptyStore
	}
	return m.c[1], nil
}
func (m *memStore) Height() uint64 { return m.Top() }
func (m *memStore) Get(_ context.Context, h header.Hash) (*vk.H, error) {
	t := m.Top()
	for i := uint64(1); i <= t; i++ {
		if bytes.Equal(m.c[i].Hash(), h) {
			return m.c[i], nil
		}
	}
	return nil, header.ErrNotFound
}
func (m *memStore) GetByHeight(_ context.Context, h uint64) (*vk.H, error) {
	if h == 0 || h > m.Top() {
		return nil, header.ErrNotFound
	}
	return m.c[h], nil
}
func (m *memStore) Has(ctx context.Context, h header.Hash) (bool, error) {
	_, err := m.Get(ctx, h)
	return err == nil, nil
}
func (m *memStore) HasAt(_ context.Context, h uint64) bool { return h != 0 && h <= m.Top() }
func (m *memStore) GetRange(_ context.Context, from, to uint64) ([]*vk.H, error) {
	m.hook()
	defer m.after()
	if from >= to || to-1 > m.Top() || from == 0 {
		return nil, header.ErrNotFound
	}
	return m.c.Slice(from, to-1), nil
}
func (m *memStore) GetRangeByHeight(ctx context.Context, from *vk.H, to uint64) ([]*vk.H, error) {
	return m.GetRange(ctx, from.Ht+1, to)
}
func (m *memStore) Append(context.Context, ...*vk.H) error            { return errors.New("read-only") }
func (m *memStore) DeleteRange(context.Context, uint64, uint64) error { return errors.New("read-only") }
func (m *memStore) OnDelete(func(context.Context, uint64) error)      {}

type c18Case struct {
	M      uint64   `json:"chunk"`
	L      uint64   `json:"length"`
	Avail  []uint64 `json:"availability"` // per peer: top height of its store
	Fault  string   `json:"fault"`        // none | slow | disconnect | grow
	FaultP int      `json:"fault_peer"`
	Honour bool     `json:"honour_deadlines"`
}

func (c c18Case) String() string {
	return fmt.Sprintf("m=%d L=%d avail=%v fault=%s@%d dl=%v", c.M, c.L, c.Avail, c.Fault, c.FaultP, c.Honour)
}

const c18From = 5

var c18Chain = vk.GenChain(vk.ChainSpec{N: 170, Step: time.Second})

type c18Out struct {
	done    bool
	res     []*vk.H
	err     error
	pan     string
	elapsed time.Duration
}

func c18Exec(t *testing.T, run *vk.Run, c c18Case) (out c18Out, ok bool) {
	run.Inflight(shardOf(t), c)
	br := vk.Bubble(t, func() {
		p := len(c.Avail)
		mn, err := mocknet.FullMeshConnected(p + 1)
		if err != nil {
			run.HarnessError("C18 mocknet: %v", err)
			return
		}
		defer mn.Close()
		hosts := mn.Hosts()
		client := &dlHost{Host: hosts[0], honour: c.Honour}
		bg := context.Background()
		var ids peer.IDSlice
		to := c18From + 1 + c.L
		for i := 0; i < p; i++ {
			ms := &memStore{c: c18Chain, top: c.Avail[i]}
			if c.Fault != "none" && i == c.FaultP {
				switch c.Fault {
				case "slow":
					ms.slowOnce = reqTimeout + 2*time.Second
				case "grow":
					ms.growTo = to
				case "disconnect":
					pi := hosts[i+1].ID()
					ms.onServe = func(n int) {
						if n == 1 {
							go func() {
								time.Sleep(time.Millisecond)
								_ = mn.DisconnectPeers(hosts[0].ID(), pi)
							}()
						}
					}
				}
			}
			sh := &dlHost{Host: hosts[i+1], honour: c.Honour}
			if strings.HasPrefix(c.Fault, "idle-disconnect") {
				// every answer (also NOT_FOUND) takes 3ms, so chunks, re-requests and the disconnect are spread over time
				sh.latency = 3 * time.Millisecond
			}
			srv, err := p2p.NewExchangeServer[*vk.H](sh, ms, p2p.WithNetworkID[p2p.ServerParameters](netID))
			if err != nil {
				run.HarnessError("C18 server: %v", err)
				return
			}
			_ = srv.Start(bg)
			defer srv.Stop(bg)
			ids = append(ids, hosts[i+1].ID())
		}
		g, _ := conngater.NewBasicConnectionGater(dssync.MutexWrap(datastore.NewMapDatastore()))
		ex, err := p2p.NewExchange[*vk.H](client, ids, g,
			p2p.WithNetworkID[p2p.ClientParameters](netID),
			p2p.WithChainID[p2p.ClientParameters]("vk"),
			p2p.WithMaxHeadersPerRangeRequest[p2p.ClientParameters](c.M),
			p2p.WithRequestTimeout[p2p.ClientParameters](reqTimeout),
		)
		if err != nil {
			run.HarnessError("C18 exchange: %v", err)
			return
		}
		_ = ex.Start(bg)
		vk.Settle()
		ctx, cancel := context.WithTimeout(bg, callerLimit)
		defer cancel()
		start := time.Now()
		if strings.HasPrefix(c.Fault, "idle-disconnect") {
			at := time.Millisecond
			if strings.HasSuffix(c.Fault, "-4") {
				at = 4 * time.Millisecond
			}
			pi := hosts[c.FaultP+1].ID()
			go func() {
				time.Sleep(at)
				_ = mn.DisconnectPeers(hosts[0].ID(), pi)
			}()
		}
		call := vk.Spawn(func() ([]*vk.H, error) { return ex.GetRangeByHeight(ctx, c18Chain[c18From], to) })
		for i := 0; i < 140 && !call.Done(); i++ {
			vk.Advance(time.Second)
		}
		out.done = call.Done()
		out.elapsed = time.Since(start)
		if out.done {
			out.res, out.err, out.pan = call.Val, call.Err, call.Panic
		}
		sctx, sc := context.WithTimeout(bg, 10*time.Second)
		_ = ex.Stop(sctx)
		sc()
		ok = true
	})
	if br.Panic != "" {
		run.HarnessError("C18 bubble panic on %s: %s\n%s", c, br.Panic, br.Stack)
		ok = false
	}
	return
}

func availClass(c c18Case) string {
	to := c18From + 1 + c.L
	var ks []string
	for _, a := range c.Avail {
		switch {
		case a == 0:
			ks = append(ks, "empty")
		case a <= c18From:
			ks = append(ks, "none")
		case a >= to-1:
			ks = append(ks, "full")
		default:
			ks = append(ks, "part")
		}
	}
	return strings.Join(ks, "+")
}

func c18Check(run *vk.Run, c c18Case, o c18Out) {
	rem := "exact"
	if c.L%c.M != 0 {
		rem = "remainder"
	}
	feat := fmt.Sprintf("m=%d,%s,peers=%d,avail=%s,fault=%s,dl=%v", c.M, rem, len(c.Avail), availClass(c), c.Fault, c.Honour)
	viol := func(clause, format string, a ...any) {
		run.Violate("C18/"+clause+"/"+feat, c, "%s: %s", c, fmt.Sprintf(format, a...))
	}
	outcome := "ok"
	switch {
	case !o.done:
		outcome = "hang"
	case o.pan != "":
		outcome = "panic"
	case o.err != nil:
		outcome = "error"
	}
	run.Distinct(feat + "|" + outcome + fmt.Sprintf("|L%d", c.L))
	if !o.done {
		viol("hang", "GetRangeByHeight did not return within %v (virtual)", o.elapsed)
		return
	}
	if o.pan != "" {
		viol("panic", "%s", o.pan)
		return
	}
	if o.err != nil {
		cls := "fails-with-honest-peers"
		if errors.Is(o.err, context.DeadlineExceeded) {
			cls = "stuck-until-callers-deadline"
		}
		viol(cls, "honest peers hold the range but the call failed after %v with: %v", o.elapsed, o.err)
		return
	}
	if uint64(len(o.res)) != c.L {
		viol("incomplete-range", "got %d headers %v, want %d", len(o.res), vk.Heights(o.res), c.L)
		return
	}
	for i, h := range o.res {
		want := c18From + 1 + uint64(i)
		if h == nil || h.Ht != want || string(h.Hash()) != string(c18Chain[want].Hash()) {
			viol("wrong-range", "got %v, want %d..%d ascending", vk.Heights(o.res), c18From+1, c18From+c.L)
			return
		}
	}
}

// c18RoundTrips: Head/Get/GetByHeight return the server's data unchanged through the wire.
func c18RoundTrips(t *testing.T, run *vk.Run) {
	vk.Bubble(t, func() {
		mn, err := mocknet.FullMeshConnected(2)
		if err != nil {
			run.HarnessError("C18 rt mocknet: %v", err)
			return
		}
		defer mn.Close()
		hosts := mn.Hosts()
		bg := context.Background()
		ms := &memStore{c: c18Chain, top: 20}
		srv, _ := p2p.NewExchangeServer[*vk.H](hosts[1], ms, p2p.WithNetworkID[p2p.ServerParameters](netID))
		_ = srv.Start(bg)
		defer srv.Stop(bg)
		g, _ := conngater.NewBasicConnectionGater(dssync.MutexWrap(datastore.NewMapDatastore()))
		ex, _ := p2p.NewExchange[*vk.H](hosts[0], peer.IDSlice{hosts[1].ID()}, g, p2p.WithNetworkID[p2p.ClientParameters](netID), p2p.WithChainID[p2p.ClientParameters]("vk"))
		_ = ex.Start(bg)
		vk.Settle()
		defer ex.Stop(bg)
		ctx, cancel := context.WithTimeout(bg, time.Minute)
		defer cancel()
		same := func(a, b *vk.H) bool {
			if a == nil || b == nil {
				return false
			}
			x, _ := a.MarshalBinary()
			y, _ := b.MarshalBinary()
			return bytes.Equal(x, y)
		}
		type rt struct {
			Op string
			H  uint64
		}
		if h, err := ex.Head(ctx); err != nil || !same(h, c18Chain[20]) {
			run.Violate("C18/roundtrip-head", rt{"head", 20}, "Head() = %v, %v; server head is %v", h, err, c18Chain[20])
		}
		for i := uint64(1); i <= 20; i++ {
			if h, err := ex.GetByHeight(ctx, i); err != nil || !same(h, c18Chain[i]) {
				run.Violate("C18/roundtrip-getbyheight", rt{"getbyheight", i}, "GetByHeight(%d) = %v, %v", i, h, err)
			}
			if h, err := ex.Get(ctx, c18Chain[i].Hash()); err != nil || !same(h, c18Chain[i]) {
				run.Violate("C18/roundtrip-get", rt{"get", i}, "Get(hash of %d) = %v, %v", i, h, err)
			}
			run.AddEval(2)
		}
	})
}

func TestC18(t *testing.T) {
	run := vk.NewRun("C18", "model_checking")
	defer run.Finish()
	run.SetRule("real Exchange against real ExchangeServers (honest in-memory stores) over mocknet: every (chunk size m, range length L=1..3m, number of peers P, per-peer availability vector over {empty, up to from, half of the range, full} with at least one full peer, benign fault {none, slow once beyond RequestTimeout, disconnect after first answer, store grows after first answer, connection dropped 1ms / 4ms into the call while every answer takes 3ms (so the peer may be idle in the session queue)} x faulty peer); plus Head/Get/GetByHeight wire round trips; distinct = (m, remainder?, P, availability classes, fault, L, outcome)")
	run.Assume("benign = honest data only; deviation bound 1 benign fault per run")

	var rc c18Case
	if is, err := vk.ReplayCase(&rc); is {
		if err != nil {
			t.Fatal(err)
		}
		if o, ok := c18Exec(t, run, rc); ok {
			c18Check(run, rc, o)
			fmt.Printf("replayed %s: done=%v err=%v heights=%v elapsed=%v violations=%d\n", rc, o.done, o.err, vk.Heights(o.res), o.elapsed, run.Violations())
		}
		return
	}
	dl := vk.NewDeadline(vk.Pick(run, 12*time.Minute, 45*time.Minute))
	c18RoundTrips(t, run)
	var cases []c18Case
	maxP := vk.Pick(run, 3, 4)
	for _, m := range []uint64{1, 2, 3, 5, 64} {
		var ls []uint64
		if m == 64 {
			ls = []uint64{1, 63, 64, 65, 128, 150}
		} else {
			for l := uint64(1); l <= 3*m && l <= 12; l++ {
				ls = append(ls, l)
			}
		}
		for _, l := range ls {
			to := c18From + 1 + l
			levels := []uint64{0, c18From, c18From + (l+1)/2, to - 1}
			for p := 1; p <= maxP; p++ {
				if m == 64 && p > 2 {
					continue
				}
				var rec func(av []uint64)
				rec = func(av []uint64) {
					if len(av) == p {
						full := false
						for _, a := range av {
							if a >= to-1 {
								full = true
							}
						}
						if !full {
							return
						}
						base := c18Case{M: m, L: l, Avail: append([]uint64(nil), av...), Fault: "none", Honour: true}
						cases = append(cases, base)
						if p >= 2 {
							for _, f := range []string{"slow", "disconnect", "grow", "idle-disconnect-1", "idle-disconnect-4"} {
								for fp := 0; fp < p; fp++ {
									// keep at least one untouched fully capable peer
									other := false
									for i, a := range av {
										if i != fp && a >= to-1 {
											other = true
										}
									}
									if !other {
										continue
									}
									if f == "grow" && av[fp] >= to-1 {
										continue
									}
									fc := base
									fc.Fault, fc.FaultP = f, fp
									cases = append(cases, fc)
								}
							}
						}
						return
					}
					for _, lv := range levels {
						if len(av) > 0 && lv < av[len(av)-1] && p > 2 {
							continue // peers are interchangeable: non-decreasing vectors suffice for P>2
						}
						rec(append(av, lv))
					}
				}
				rec(nil)
			}
		}
	}
	// transport ignoring deadlines, small sample of the matrix
	n0 := len(cases)
	for i := 0; i < n0; i++ {
		c := cases[i]
		// every slow-peer case (a late but complete answer is only possible when stream deadlines are
		// not enforced), every 7th of the others
		if c.Fault != "slow" && i%7 != 0 {
			continue
		}
		c.Honour = false
		cases = append(cases, c)
	}
	run.Set("cases", len(cases))
	q := vk.NewWorkQueue(len(cases))
	vk.Shards(t, vk.NumShards(), func(t *testing.T, shard int) {
		for {
			if dl.Hit() {
				run.NotExhaustive("time budget hit")
				return
			}
			i, ok := q.Next()
			if !ok {
				return
			}
			o, ok2 := c18Exec(t, run, cases[i])
			if !ok2 {
				continue
			}
			run.AddEval(1)
			c18Check(run, cases[i], o)
			if i%499 == 0 {
				run.Sample(cases[i].String())
			}
		}
	})
	for i := 0; i < len(cases); i += 1 + len(cases)/8 {
		o1, ok1 := c18Exec(t, run, cases[i])
		o2, ok2 := c18Exec(t, run, cases[i])
		if ok1 && ok2 && (o1.done != o2.done || (o1.err == nil) != (o2.err == nil) || len(o1.res) != len(o2.res)) {
			run.HarnessError("replay divergence on %s", cases[i])
		}
		run.AddValidated(1)
	}
}
