package p2px

import (
	"context"
	"fmt"
	"sort"
	"strings"
	"testing"
	"time"

	"github.com/celestiaorg/go-header/p2p"
	p2p_pb "github.com/celestiaorg/go-header/p2p/pb"

	"verif/vk"
)

// Dev is one scripted deviation: the Attempt-th request for Origin gets Answer.
type Dev struct {
	Origin  uint64 `json:"origin"`
	Attempt int    `json:"attempt"`
	Ans     Answer `json:"answer"`
}

type c05Case struct {
	M      uint64 `json:"chunk"` // MaxHeadersPerRangeRequest
	K      int    `json:"peers"` // tracked peers
	FromH  uint64 `json:"from"`  // height of `from`
	To     uint64 `json:"to"`    // exclusive upper bound
	Honour bool   `json:"honour_deadlines"`
	Devs   []Dev  `json:"deviations"`
}

func (c c05Case) String() string {
	ds := make([]string, len(c.Devs))
	for i, d := range c.Devs {
		ds[i] = fmt.Sprintf("o%d#%d=%s", d.Origin, d.Attempt, d.Ans)
	}
	return fmt.Sprintf("m=%d peers=%d from=%d to=%d dl=%v devs=[%s]", c.M, c.K, c.FromH, c.To, c.Honour, strings.Join(ds, " "))
}

const c05N = 40

var c05Chain = vk.GenChain(vk.ChainSpec{N: c05N, Step: time.Second, R: 0})

const (
	reqTimeout  = 8 * time.Second
	callerLimit = 120 * time.Second
)

// rangeCatalogue: the Byzantine/omission behaviours for a range sub-request of `amount` headers.
func rangeCatalogue(fromH uint64, amount uint64) []Answer {
	as := []Answer{
		{Kind: "shift", K: 2}, {Kind: "shift", K: -1}, {Kind: "shift", K: int(amount)},
		{Kind: "replay-first", K: int(fromH + 1)},
		{Kind: "reorder"}, {Kind: "inner-gap"}, {Kind: "dup-inside"},
		{Kind: "forged", K: 0}, {Kind: "forged", K: 1}, {Kind: "evil-sig"},
		{Kind: "wrong-chain"}, {Kind: "empty-chain"}, {Kind: "invalid"},
		{Kind: "garbage-body"}, {Kind: "empty-body"}, {Kind: "boom-body"},
		{Kind: "malformed-frame"}, {Kind: "truncated-frame"}, {Kind: "oversized-prefix"}, {Kind: "random-bytes"},
		{Kind: "not-found"}, {Kind: "unknown-status"}, {Kind: "negative-status"}, {Kind: "invalid-status"},
		{Kind: "empty-close"}, {Kind: "extra"}, {Kind: "reset"}, {Kind: "hang"},
		{Kind: "prefix", K: 1},
	}
	return as
}

type c05Out struct {
	done    bool
	pan     string
	err     error
	res     []*vk.H
	elapsed time.Duration
	reqs    []SeenReq
}

// c05Exec runs one case on the real Exchange.
func c05Exec(t *testing.T, run *vk.Run, c c05Case) (out c05Out, ok bool) {
	run.Inflight(shardOf(t), c)
	br := vk.Bubble(t, func() {
		script := func(_ int, req *p2p_pb.HeaderRequest, attempt int) Answer {
			for _, d := range c.Devs {
				if req.GetHash() == nil && d.Origin == req.GetOrigin() && d.Attempt == attempt {
					return d.Ans
				}
			}
			return Answer{Kind: "honest"}
		}
		net, err := NewNet(c.K, c05Chain, c.Honour, script)
		if err != nil {
			run.HarnessError("C05: mocknet: %v", err)
			return
		}
		defer net.Close()
		ex, err := net.NewExchange(net.PeerIDs(),
			p2p.WithMaxHeadersPerRangeRequest[p2p.ClientParameters](c.M),
			p2p.WithRequestTimeout[p2p.ClientParameters](reqTimeout),
			p2p.WithChainID[p2p.ClientParameters]("vk"),
		)
		if err != nil {
			run.HarnessError("C05: exchange: %v", err)
			return
		}
		ctx, cancel := context.WithTimeout(context.Background(), callerLimit)
		defer cancel()
		start := time.Now()
		call := vk.Spawn(func() ([]*vk.H, error) {
			return ex.GetRangeByHeight(ctx, c05Chain[c.FromH], c.To)
		})
		// let virtual time run until the call ends or the caller's deadline (+margin) passes
		for i := 0; i < 140 && !call.Done(); i++ {
			vk.Advance(time.Second)
		}
		out.done = call.Done()
		if out.done {
			out.pan, out.err, out.res = call.Panic, call.Err, call.Val
			if call.Panic != "" {
				out.pan += "\n" + call.Stack
			}
		}
		out.elapsed = time.Since(start)
		net.mu.Lock()
		out.reqs = append([]SeenReq(nil), net.Reqs...)
		net.mu.Unlock()
		sctx, sc := context.WithTimeout(context.Background(), 10*time.Second)
		_ = ex.Stop(sctx)
		sc()
		ok = true
	})
	if br.Panic != "" {
		run.HarnessError("C05 bubble panic on %s: %s\n%s", c, br.Panic, br.Stack)
		ok = false
	}
	return out, ok
}

func devFeat(c c05Case) string {
	ks := make([]string, len(c.Devs))
	for i, d := range c.Devs {
		pos := "later"
		if d.Origin == c.FromH+1 {
			pos = "first-chunk"
		}
		ks[i] = d.Ans.String() + "@" + pos + fmt.Sprintf("#%d", d.Attempt)
	}
	sort.Strings(ks)
	deg := ""
	if c.To <= c.FromH+1 {
		deg = fmt.Sprintf(",degenerate(to-from=%d)", int64(c.To)-int64(c.FromH))
	}
	return fmt.Sprintf("devs=%s,dl=%v%s", strings.Join(ks, "+"), c.Honour, deg)
}

// c05Check applies the oracle.
func c05Check(run *vk.Run, c c05Case, o c05Out) {
	feat := devFeat(c)
	viol := func(clause, format string, a ...any) {
		run.Violate("C05/"+clause+"/"+feat, c, "%s: %s", c, fmt.Sprintf(format, a...))
	}
	outcome := "error"
	switch {
	case !o.done:
		outcome = "hang"
	case o.pan != "":
		outcome = "panic"
	case o.err == nil:
		outcome = fmt.Sprintf("ok(%d)", len(o.res))
	}
	run.Distinct(feat + "|" + outcome)
	if !o.done {
		viol("hang", "call did not return %v (virtual) after being issued; the caller's deadline is %v", o.elapsed, callerLimit)
		return
	}
	if o.pan != "" {
		viol("panic", "GetRangeByHeight panicked: %s", o.pan)
		return
	}
	degenerate := c.To <= c.FromH+1
	if degenerate {
		if o.err == nil {
			viol("degenerate-accepted", "degenerate request returned nil error with %d headers", len(o.res))
		} else if o.elapsed > 2*reqTimeout {
			viol("degenerate-hangs", "degenerate request only ended after %v (virtual) with %v", o.elapsed, o.err)
		}
		return
	}
	if o.err != nil {
		return // an error is always allowed by the statement
	}
	if len(o.res) == 0 {
		viol("empty-with-nil-error", "nil error with an empty slice")
		return
	}
	for i, h := range o.res {
		want := c.FromH + 1 + uint64(i)
		if h == nil {
			viol("zero-header-in-result", "result[%d] is a zero header", i)
			return
		}
		if h.Ht != want {
			viol("not-contiguous-from-origin", "result heights %v, want %d,%d,... (from=%d)", vk.Heights(o.res), c.FromH+1, c.FromH+2, c.FromH)
			return
		}
		if h.Ht >= c.To {
			viol("beyond-to", "result contains height %d >= to %d", h.Ht, c.To)
			return
		}
		if string(h.Hash()) != string(c05Chain[h.Ht].Hash()) {
			viol("unverified-header-in-result", "result[%d] (height %d) is not the chain's header: it cannot have passed Verify from `from` (chain=%s sig=%s)", i, h.Ht, h.Chain, h.Sig)
			return
		}
	}
}

// newKeys: (origin,attempt) request keys seen in o that are not yet fixed by c's deviations and
// could carry a further deviation.
func c05NextPositions(c c05Case, o c05Out) []Dev {
	seen := map[string]bool{}
	var out []Dev
	for _, r := range o.reqs {
		if r.Hash != nil || r.Origin == 0 {
			continue
		}
		k := fmt.Sprintf("%d#%d", r.Origin, r.Attempt)
		if seen[k] {
			continue
		}
		seen[k] = true
		fixed := false
		for _, d := range c.Devs {
			if d.Origin == r.Origin && d.Attempt == r.Attempt {
				fixed = true
			}
		}
		if !fixed {
			out = append(out, Dev{Origin: r.Origin, Attempt: r.Attempt})
		}
	}
	sort.Slice(out, func(i, j int) bool {
		if out[i].Origin != out[j].Origin {
			return out[i].Origin < out[j].Origin
		}
		return out[i].Attempt < out[j].Attempt
	})
	return out
}

func devKey(ds []Dev) string {
	ks := make([]string, len(ds))
	for i, d := range ds {
		ks[i] = fmt.Sprintf("%d#%d=%s", d.Origin, d.Attempt, d.Ans)
	}
	sort.Strings(ks)
	return strings.Join(ks, ";")
}

func TestC05(t *testing.T) {
	run := vk.NewRun("C05", "fault_enumeration")
	defer run.Finish()
	run.SetRule("real p2p.Exchange over libp2p mocknet with scripted peers, in a synctest bubble; for every (chunk size, peers, range length, deadline-honouring transport) the set of deviations (answer from a 27-entry Byzantine/omission catalogue bound to the n-th request for an origin) is enumerated breadth-first: all single deviations at every request position of the honest run, then for each of those every further deviation at every position its run exposes (retries, remainder requests), up to the deviation bound; plus all degenerate (to <= from+1) requests; distinct = (deviation kinds and positions, outcome)")
	run.Assume("peers without signing keys: forged headers fail the harness header type's adjacent Verify; equivocation by key holders is outside the catalogue")
	run.Assume("mocknet transport; deadline behaviour via a stream decorator (both honouring and ignoring variants)")

	var rc c05Case
	if is, err := vk.ReplayCase(&rc); is {
		if err != nil {
			t.Fatal(err)
		}
		if o, ok := c05Exec(t, run, rc); ok {
			c05Check(run, rc, o)
			fmt.Printf("replayed %s: done=%v err=%v heights=%v panic=%q elapsed=%v violations=%d\n", rc, o.done, o.err, vk.Heights(o.res), o.pan, o.elapsed, run.Violations())
		}
		return
	}
	bound := vk.Pick(run, 2, 3)
	run.Set("deviation_bound", bound)
	dl := vk.NewDeadline(vk.Pick(run, 12*time.Minute, 45*time.Minute))
	const fromH = 5
	type cfg struct {
		m      uint64
		k      int
		l      uint64
		honour bool
		bound  int
	}
	var cfgs []cfg
	for _, m := range []uint64{1, 2, 3} {
		cfgs = append(cfgs, cfg{m, 4, 3 * m, true, bound})
	}
	cfgs = append(cfgs, cfg{2, 4, 5, true, bound}, cfg{2, 1, 4, true, 1}, cfg{2, 2, 4, true, vk.Pick(run, 1, 2)}, cfg{3, 3, 6, false, vk.Pick(run, 1, 2)})
	if run.Thorough() {
		cfgs = append(cfgs, cfg{5, 4, 12, true, 2}, cfg{2, 3, 6, true, 3}, cfg{1, 4, 3, false, 2})
	}
	var base []c05Case
	// degenerate requests
	for _, m := range []uint64{1, 3} {
		for _, to := range []uint64{fromH - 3, fromH, fromH + 1, 0} {
			for _, honour := range []bool{true, false} {
				base = append(base, c05Case{M: m, K: 2, FromH: fromH, To: to, Honour: honour})
			}
		}
	}
	type job struct {
		c     c05Case
		bound int
	}
	var frontier []job
	for _, c := range base {
		frontier = append(frontier, job{c, 0})
	}
	for _, g := range cfgs {
		frontier = append(frontier, job{c05Case{M: g.m, K: g.k, FromH: fromH, To: fromH + 1 + g.l, Honour: g.honour}, g.bound})
	}
	seen := map[string]bool{}
	level := 0
	for len(frontier) > 0 {
		results := make([][]job, len(frontier))
		q := vk.NewWorkQueue(len(frontier))
		vk.Shards(t, vk.NumShards(), func(t *testing.T, shard int) {
			for {
				if dl.Hit() {
					return
				}
				i, ok := q.Next()
				if !ok {
					return
				}
				j := frontier[i]
				o, ok2 := c05Exec(t, run, j.c)
				if !ok2 {
					continue
				}
				run.AddEval(1)
				c05Check(run, j.c, o)
				if i%211 == 0 {
					run.Sample(j.c.String())
				}
				if len(j.c.Devs) < j.bound {
					amount := j.c.M
					for _, pos := range c05NextPositions(j.c, o) {
						for _, a := range rangeCatalogue(j.c.FromH, amount) {
							nc := j.c
							nc.Devs = append(append([]Dev(nil), j.c.Devs...), Dev{Origin: pos.Origin, Attempt: pos.Attempt, Ans: a})
							results[i] = append(results[i], job{nc, j.bound})
						}
					}
				}
			}
		})
		if dl.Hit() {
			run.NotExhaustive(fmt.Sprintf("time budget hit at deviation level %d", level))
			break
		}
		var next []job
		for _, rs := range results {
			for _, j := range rs {
				k := fmt.Sprintf("%d/%d/%d/%v/%s", j.c.M, j.c.K, j.c.To, j.c.Honour, devKey(j.c.Devs))
				if !seen[k] {
					seen[k] = true
					next = append(next, j)
				}
			}
		}
		run.AddStates(int64(len(frontier)))
		frontier = next
		level++
		run.Set("deviation_levels_completed", level)
	}
	// determinism: replay a few cases twice and compare outcomes
	for _, c := range base[:4] {
		o1, ok1 := c05Exec(t, run, c)
		o2, ok2 := c05Exec(t, run, c)
		if ok1 && ok2 && (o1.done != o2.done || fmt.Sprint(o1.err) != fmt.Sprint(o2.err) || fmt.Sprint(vk.Heights(o1.res)) != fmt.Sprint(vk.Heights(o2.res))) {
			run.HarnessError("replay divergence on %s", c)
		}
		run.AddValidated(1)
	}
}

func shardOf(t *testing.T) int {
	name := t.Name()
	i := strings.LastIndex(name, "/s")
	if i < 0 {
		return 0
	}
	n := 0
	fmt.Sscanf(name[i+2:], "%d", &n)
	return n
}
