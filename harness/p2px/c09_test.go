package p2px

import (
	"context"
	"errors"
	"fmt"
	"strings"
	"testing"
	"time"

	"github.com/celestiaorg/go-header"
	"github.com/celestiaorg/go-header/p2p"
	p2p_pb "github.com/celestiaorg/go-header/p2p/pb"

	"verif/vk"
)

type c09Case struct {
	Trusted bool     `json:"with_trusted_head"`
	Seq     []string `json:"arrivals"` // answer kind of the i-th arriving peer
	Honour  bool     `json:"honour_deadlines"`
	// NoTracked: every peer is disconnected before the call, so the tracker has no peers and
	// Head(WithTrustedHead) falls back to dialling the trusted peers; verification against the trusted
	// head is owed all the same
	NoTracked bool `json:"no_tracked_peers,omitempty"`
}

func (c c09Case) String() string {
	return fmt.Sprintf("trustedHead=%v noTracked=%v dl=%v arrivals=%v", c.Trusted, c.NoTracked, c.Honour, c.Seq)
}

// chain with trust range 5; trusted head t = c[9]
var c09Chain = vk.GenChain(vk.ChainSpec{N: 30, Step: time.Second, R: 5})

const c09T = 9

func c09Specials() map[string]*vk.H {
	c := c09Chain
	m := map[string]*vk.H{
		"A":     c[10],
		"B":     c[12],
		"older": c[8],  // below the trusted head: ErrKnownHeader (hard)
		"S":     c[20], // beyond the trust range of t: soft failure
	}
	m["A'"] = mutate(c[10], func(h *vk.H) { h.Salt = 7 })                                 // conflicting header, same height, verifies adjacent
	m["hardadj"] = mutate(c[10], func(h *vk.H) { h.Prev = []byte("forged"); h.Salt = 9 }) // adjacent with a bad link: hard
	return m
}

type c09Ref struct {
	kind string // ok | soft | hard | none
	h    *vk.H
}

// c09Classify: what an answer contributes, by the reference.
func c09Classify(c c09Case, kind string, sp map[string]*vk.H) c09Ref {
	h := sp[kind]
	if h == nil {
		return c09Ref{kind: "none"} // error / hang
	}
	if !c.Trusted {
		return c09Ref{kind: "ok", h: h}
	}
	t := c09Chain[c09T]
	// reference Verify: mandatory checks then the header type's own check
	if h.Chain != t.Chain || !(h.Ht > t.Ht) || h.TNano < t.TNano {
		return c09Ref{kind: "hard", h: h}
	}
	if err := t.Verify(h); err != nil {
		if h.Ht == t.Ht+1 {
			return c09Ref{kind: "hard", h: h}
		}
		return c09Ref{kind: "soft", h: h}
	}
	return c09Ref{kind: "ok", h: h}
}

func quorum(n int) int {
	if n <= 2 {
		return n
	}
	return (2*n + 2) / 3
}

type c09Out struct {
	doneAfter int // index of the release after which the call was first seen finished (-1: before any, len: only after time passed, len+1: never)
	res       *vk.H
	err       error
	pan       string
}

func c09Exec(t *testing.T, run *vk.Run, c c09Case) (out c09Out, ok bool) {
	run.Inflight(shardOf(t), c)
	n := len(c.Seq)
	br := vk.Bubble(t, func() {
		script := func(idx int, req *p2p_pb.HeaderRequest, attempt int) Answer {
			k := c.Seq[idx]
			switch k {
			case "error":
				return Answer{Kind: "not-found"}
			case "hang":
				return Answer{Kind: "hang"}
			}
			return Answer{Kind: "special:" + k}
		}
		net, err := NewNet(n, c09Chain, c.Honour, script)
		if err != nil {
			run.HarnessError("C09 mocknet: %v", err)
			return
		}
		defer net.Close()
		net.Special = c09Specials()
		for i := range net.Gates {
			net.Gates[i] = make(chan struct{})
		}
		ex, err := net.NewExchange(net.PeerIDs(), p2p.WithChainID[p2p.ClientParameters]("vk"))
		if err != nil {
			run.HarnessError("C09 exchange: %v", err)
			return
		}
		if c.NoTracked {
			vk.Settle()
			for _, p := range net.Peers {
				_ = net.MN.DisconnectPeers(net.Client.ID(), p.ID())
			}
			vk.Settle()
		}
		ctx, cancel := context.WithTimeout(context.Background(), 30*time.Second)
		defer cancel()
		call := vk.Spawn(func() (*vk.H, error) {
			if c.Trusted {
				return ex.Head(ctx, header.WithTrustedHead[*vk.H](c09Chain[c09T]))
			}
			return ex.Head(ctx)
		})
		vk.Settle()
		out.doneAfter = n + 1
		if call.Done() {
			out.doneAfter = -1
		}
		for i := 0; i < n; i++ {
			net.Release(i)
			vk.Settle()
			if call.Done() && out.doneAfter > i {
				out.doneAfter = i
			}
		}
		for i := 0; i < 40 && !call.Done(); i++ {
			vk.Advance(time.Second)
		}
		if call.Done() {
			if out.doneAfter > n {
				out.doneAfter = n
			}
			out.res, out.err, out.pan = call.Val, call.Err, call.Panic
		}
		sctx, sc := context.WithTimeout(context.Background(), 10*time.Second)
		_ = ex.Stop(sctx)
		sc()
		ok = true
	})
	if br.Panic != "" {
		run.HarnessError("C09 bubble panic on %s: %s\n%s", c, br.Panic, br.Stack)
		ok = false
	}
	return
}

func c09Check(run *vk.Run, c c09Case, o c09Out) {
	n := len(c.Seq)
	sp := c09Specials()
	feat := fmt.Sprintf("n=%d,trusted=%v,dl=%v,seq=%s", n, c.Trusted, c.Honour, strings.Join(c.Seq, ""))
	if c.NoTracked {
		feat += ",no-tracked-peers"
	}
	viol := func(clause, format string, a ...any) {
		run.Violate("C09/"+clause+"/"+feat, c, "%s: %s", c, fmt.Sprintf(format, a...))
	}
	// reference fold
	q := quorum(n)
	count := map[string]int{}
	softOf := map[string]bool{}
	var collected []c09Ref
	quorumAt, hang := -1, false
	var quorumRef c09Ref
	for i, k := range c.Seq {
		if k == "hang" {
			hang = true
			continue
		}
		r := c09Classify(c, k, sp)
		if r.kind == "ok" || r.kind == "soft" {
			collected = append(collected, r)
			hs := string(r.h.Hash())
			count[hs]++
			if r.kind == "soft" {
				softOf[hs] = true
			}
			if count[hs] >= q && quorumAt < 0 {
				quorumAt, quorumRef = i, r
			}
		}
	}
	outcome := "error"
	switch {
	case o.doneAfter > n:
		outcome = "never"
	case o.pan != "":
		outcome = "panic"
	case o.err == nil && o.res != nil:
		outcome = fmt.Sprintf("h%d", o.res.Ht)
	case o.res != nil:
		outcome = fmt.Sprintf("h%d+err", o.res.Ht)
	}
	run.Distinct(fmt.Sprintf("n=%d,trusted=%v,q=%v,hang=%v,%s|%s", n, c.Trusted, quorumAt >= 0, hang, multiset(c.Seq), outcome))
	if o.pan != "" {
		viol("panic", "Head panicked: %s", o.pan)
		return
	}
	if o.doneAfter > n {
		viol("hang", "Head did not return even after the caller's deadline")
		return
	}
	// properties of whatever was returned
	if o.res != nil {
		found := false
		for _, r := range collected {
			if string(r.h.Hash()) == string(o.res.Hash()) {
				found = true
			}
		}
		if !found {
			viol("returned-header-nobody-validly-supplied", "returned %s which is not among the acceptable answers that arrived", o.res)
			return
		}
		hs := string(o.res.Hash())
		var ve *header.VerifyError
		isSoftErr := errors.As(o.err, &ve) && ve.SoftFailure
		if c.Trusted {
			if softOf[hs] && !isSoftErr {
				viol("soft-header-without-soft-error", "returned soft-failing %s with err=%v", o.res, o.err)
			}
			if !softOf[hs] && o.err != nil {
				viol("verified-header-with-error", "returned %s which verifies against the trusted head, with err=%v", o.res, o.err)
			}
		} else if o.err != nil {
			viol("header-with-error", "plain Head returned %s together with err=%v", o.res, o.err)
		}
	} else if o.err == nil {
		viol("zero-header-nil-error", "Head returned a zero header and a nil error")
		return
	}
	if quorumAt >= 0 {
		// must return the quorum header right at that arrival
		if o.res == nil || string(o.res.Hash()) != string(quorumRef.h.Hash()) {
			viol("quorum-header-not-returned", "arrival %d completes a quorum of %d for %s but Head returned %v (err %v)", quorumAt, q, quorumRef.h, o.res, o.err)
		} else if o.doneAfter != quorumAt {
			viol("quorum-not-returned-promptly", "quorum completed at arrival %d but the call finished after release %d", quorumAt, o.doneAfter)
		}
		return
	}
	if hang {
		// no quorum, somebody never answers: the context error, or a header consistent with the arrivals
		if o.res == nil && !errors.Is(o.err, context.DeadlineExceeded) && !errors.Is(o.err, header.ErrNotFound) {
			viol("unexpected-error-with-hanging-peer", "err=%v", o.err)
		}
		return
	}
	// everybody answered, no quorum
	if len(collected) == 0 {
		if o.res != nil || !errors.Is(o.err, header.ErrNotFound) {
			viol("notfound-expected", "nobody supplied a header: want zero+ErrNotFound, got %v, %v", o.res, o.err)
		}
		return
	}
	var best uint64
	for _, r := range collected {
		if r.h.Ht > best {
			best = r.h.Ht
		}
	}
	if o.res == nil {
		viol("highest-not-returned", "no quorum, heads were supplied (highest %d) but Head returned err=%v", best, o.err)
	} else if o.res.Ht != best {
		viol("highest-not-returned", "no quorum: want a header of the highest reported height %d, got %s", best, o.res)
	}
	if o.doneAfter != n-1 && o.doneAfter != n {
		viol("returned-before-all-answers", "no quorum exists, yet the call finished after release %d of %d", o.doneAfter, n)
	}
}

func multiset(s []string) string {
	m := map[string]int{}
	for _, x := range s {
		m[x]++
	}
	var out []string
	for _, k := range []string{"A", "A'", "B", "older", "hardadj", "S", "error", "hang"} {
		if m[k] > 0 {
			out = append(out, fmt.Sprintf("%s%d", k, m[k]))
		}
	}
	return strings.Join(out, "")
}

func seqs(alpha []string, n int, f func([]string)) {
	cur := make([]string, n)
	var rec func(i int)
	rec = func(i int) {
		if i == n {
			f(append([]string(nil), cur...))
			return
		}
		for _, a := range alpha {
			cur[i] = a
			rec(i + 1)
		}
	}
	rec(0)
}

func TestC09(t *testing.T) {
	run := vk.NewRun("C09", "model_checking")
	defer run.Finish()
	run.SetRule("real Exchange.Head over mocknet; every ordered arrival sequence of peer answers over {A, A' (conflicting), B (higher), older, error, hang} for 1..5 (thorough 6) trusted peers, and over {A, A', B, older(hard), bad-link(hard), S(soft), error, hang} for 1..4 tracked peers with WithTrustedHead (and for 1..2 peers with every peer disconnected beforehand, so the call falls back to the trusted peers); the arrival order is imposed with release gates and the call's completion is observed after every single arrival; reference = fold over the sequence with the quorum rule; distinct = (n, mode, quorum?, hang?, multiset, outcome)")
	run.Assume("with more than 4 tracked peers Head asks a map-order subset; that case is not enumerated")

	var rc c09Case
	if is, err := vk.ReplayCase(&rc); is {
		if err != nil {
			t.Fatal(err)
		}
		if o, ok := c09Exec(t, run, rc); ok {
			c09Check(run, rc, o)
			fmt.Printf("replayed %s: doneAfter=%d res=%v err=%v violations=%d\n", rc, o.doneAfter, o.res, o.err, run.Violations())
		}
		return
	}
	dl := vk.NewDeadline(vk.Pick(run, 10*time.Minute, 45*time.Minute))
	var cases []c09Case
	plain := []string{"A", "A'", "B", "older", "error", "hang"}
	plainReduced := []string{"A", "A'", "B", "error", "hang"}
	trusted := []string{"A", "A'", "B", "older", "hardadj", "S", "error", "hang"}
	for n := 1; n <= 4; n++ {
		seqs(plain, n, func(s []string) { cases = append(cases, c09Case{Seq: s, Honour: true}) })
		seqs(trusted, n, func(s []string) { cases = append(cases, c09Case{Trusted: true, Seq: s, Honour: true}) })
		if n <= 2 {
			seqs(trusted, n, func(s []string) { cases = append(cases, c09Case{Trusted: true, NoTracked: true, Seq: s, Honour: true}) })
		}
	}
	seqs(plainReduced, 5, func(s []string) { cases = append(cases, c09Case{Seq: s, Honour: true}) })
	seqs([]string{"A", "B", "hang", "error"}, 3, func(s []string) {
		cases = append(cases, c09Case{Seq: s, Honour: false}, c09Case{Trusted: true, Seq: s, Honour: false})
	})
	if run.Thorough() {
		seqs(plainReduced, 6, func(s []string) { cases = append(cases, c09Case{Seq: s, Honour: true}) })
		seqs(plain, 5, func(s []string) { cases = append(cases, c09Case{Seq: s, Honour: true}) })
	}
	run.Set("cases", len(cases))
	q := vk.NewWorkQueue(len(cases))
	vk.Shards(t, vk.NumShards(), func(t *testing.T, shard int) {
		for {
			if dl.Hit() {
				run.NotExhaustive("time budget hit")
				return
			}
			i, ok := q.Next()
			if !ok {
				return
			}
			o, ok2 := c09Exec(t, run, cases[i])
			if !ok2 {
				continue
			}
			run.AddEval(1)
			c09Check(run, cases[i], o)
			if i%997 == 0 {
				run.Sample(cases[i].String())
			}
		}
	})
	for i := 0; i < len(cases); i += 1 + len(cases)/8 {
		if strings.Contains(strings.Join(cases[i].Seq, ","), "hang") {
			// a hanging peer and the caller's deadline fire at the same virtual instant: Go's select may
			// legitimately pick either (both outcomes are accepted by the oracle), so not replay-stable
			continue
		}
		o1, ok1 := c09Exec(t, run, cases[i])
		o2, ok2 := c09Exec(t, run, cases[i])
		if ok1 && ok2 && (o1.doneAfter != o2.doneAfter || fmt.Sprint(o1.res) != fmt.Sprint(o2.res)) {
			run.HarnessError("replay divergence on %s: %+v vs %+v", cases[i], o1, o2)
		}
		run.AddValidated(1)
	}
}
