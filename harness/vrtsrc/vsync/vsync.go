// Package vsync is the scheduling-point shim of package sync used by instrumented code.
package vsync

import (
	"sync"

	"github.com/celestiaorg/go-header/verifrt/vrt"
)

// Locker mirrors sync.Locker.
type Locker = sync.Locker

type Mutex struct {
	mu     sync.Mutex
	locked bool
}

func (m *Mutex) free() bool { m.mu.Lock(); defer m.mu.Unlock(); return !m.locked }

func (m *Mutex) Lock() {
	for {
		vrt.Point("lock", m.free)
		m.mu.Lock()
		if !m.locked {
			m.locked = true
			m.mu.Unlock()
			return
		}
		m.mu.Unlock()
	}
}

func (m *Mutex) TryLock() bool {
	vrt.Point("trylock", nil)
	m.mu.Lock()
	defer m.mu.Unlock()
	if m.locked {
		return false
	}
	m.locked = true
	return true
}

func (m *Mutex) Unlock() {
	m.mu.Lock()
	if !m.locked {
		m.mu.Unlock()
		panic("vsync: unlock of unlocked mutex")
	}
	m.locked = false
	m.mu.Unlock()
}

type RWMutex struct {
	mu      sync.Mutex
	writer  bool
	readers int
}

func (m *RWMutex) wfree() bool { m.mu.Lock(); defer m.mu.Unlock(); return !m.writer && m.readers == 0 }
func (m *RWMutex) rfree() bool { m.mu.Lock(); defer m.mu.Unlock(); return !m.writer }

func (m *RWMutex) Lock() {
	for {
		vrt.Point("wlock", m.wfree)
		m.mu.Lock()
		if !m.writer && m.readers == 0 {
			m.writer = true
			m.mu.Unlock()
			return
		}
		m.mu.Unlock()
	}
}

func (m *RWMutex) Unlock() {
	m.mu.Lock()
	if !m.writer {
		m.mu.Unlock()
		panic("vsync: unlock of unlocked rwmutex")
	}
	m.writer = false
	m.mu.Unlock()
}

func (m *RWMutex) RLock() {
	for {
		vrt.Point("rlock", m.rfree)
		m.mu.Lock()
		if !m.writer {
			m.readers++
			m.mu.Unlock()
			return
		}
		m.mu.Unlock()
	}
}

func (m *RWMutex) RUnlock() {
	m.mu.Lock()
	if m.readers <= 0 {
		m.mu.Unlock()
		panic("vsync: runlock of unlocked rwmutex")
	}
	m.readers--
	m.mu.Unlock()
}

func (m *RWMutex) TryLock() bool {
	vrt.Point("trywlock", nil)
	m.mu.Lock()
	defer m.mu.Unlock()
	if m.writer || m.readers > 0 {
		return false
	}
	m.writer = true
	return true
}

type WaitGroup struct {
	mu sync.Mutex
	n  int
}

func (w *WaitGroup) Add(d int) {
	w.mu.Lock()
	w.n += d
	if w.n < 0 {
		w.mu.Unlock()
		panic("vsync: negative WaitGroup counter")
	}
	w.mu.Unlock()
}
func (w *WaitGroup) Done()      { w.Add(-1) }
func (w *WaitGroup) zero() bool { w.mu.Lock(); defer w.mu.Unlock(); return w.n == 0 }
func (w *WaitGroup) Wait() {
	for {
		vrt.Point("wgwait", w.zero)
		if w.zero() {
			return
		}
	}
}

type Once struct {
	mu      sync.Mutex
	done    bool
	running bool
}

func (o *Once) idle() bool { o.mu.Lock(); defer o.mu.Unlock(); return !o.running }

func (o *Once) Do(f func()) {
	for {
		vrt.Point("once", o.idle)
		o.mu.Lock()
		if o.done {
			o.mu.Unlock()
			return
		}
		if o.running {
			o.mu.Unlock()
			continue
		}
		o.running = true
		o.mu.Unlock()
		defer func() {
			o.mu.Lock()
			o.running, o.done = false, true
			o.mu.Unlock()
		}()
		f()
		return
	}
}
