// Package vatomic is the scheduling-point shim of package sync/atomic used by instrumented code.
package vatomic

import (
	"sync"

	"github.com/celestiaorg/go-header/verifrt/vrt"
)

type Uint64 struct {
	mu sync.Mutex
	v  uint64
}

func (a *Uint64) Load() uint64 {
	vrt.Point("atomic.load", nil)
	a.mu.Lock()
	defer a.mu.Unlock()
	return a.v
}
func (a *Uint64) Store(v uint64) {
	vrt.Point("atomic.store", nil)
	a.mu.Lock()
	a.v = v
	a.mu.Unlock()
}
func (a *Uint64) Add(d uint64) uint64 {
	vrt.Point("atomic.add", nil)
	a.mu.Lock()
	defer a.mu.Unlock()
	a.v += d
	return a.v
}
func (a *Uint64) CompareAndSwap(old, new uint64) bool {
	vrt.Point("atomic.cas", nil)
	a.mu.Lock()
	defer a.mu.Unlock()
	if a.v != old {
		return false
	}
	a.v = new
	return true
}
func (a *Uint64) Swap(new uint64) uint64 {
	vrt.Point("atomic.swap", nil)
	a.mu.Lock()
	defer a.mu.Unlock()
	old := a.v
	a.v = new
	return old
}

type Bool struct {
	mu sync.Mutex
	v  bool
}

func (a *Bool) Load() bool {
	vrt.Point("atomic.load", nil)
	a.mu.Lock()
	defer a.mu.Unlock()
	return a.v
}
func (a *Bool) Store(v bool) {
	vrt.Point("atomic.store", nil)
	a.mu.Lock()
	a.v = v
	a.mu.Unlock()
}

type Pointer[T any] struct {
	mu sync.Mutex
	p  *T
}

func (a *Pointer[T]) Load() *T {
	vrt.Point("atomic.load", nil)
	a.mu.Lock()
	defer a.mu.Unlock()
	return a.p
}
func (a *Pointer[T]) Store(p *T) {
	vrt.Point("atomic.store", nil)
	a.mu.Lock()
	a.p = p
	a.mu.Unlock()
}
func (a *Pointer[T]) CompareAndSwap(old, new *T) bool {
	vrt.Point("atomic.cas", nil)
	a.mu.Lock()
	defer a.mu.Unlock()
	if a.p != old {
		return false
	}
	a.p = new
	return true
}
func (a *Pointer[T]) Swap(new *T) *T {
	vrt.Point("atomic.swap", nil)
	a.mu.Lock()
	defer a.mu.Unlock()
	old := a.p
	a.p = new
	return old
}

// Int64 is only used by the metrics counters of the instrumented packages; they never feed
// back into protocol decisions, so its operations are not scheduling points.
type Int64 struct {
	mu sync.Mutex
	v  int64
}

func (a *Int64) Load() int64 { a.mu.Lock(); defer a.mu.Unlock(); return a.v }
func (a *Int64) Store(v int64) {
	a.mu.Lock()
	a.v = v
	a.mu.Unlock()
}
func (a *Int64) Add(d int64) int64 {
	a.mu.Lock()
	defer a.mu.Unlock()
	a.v += d
	return a.v
}
func (a *Int64) Swap(n int64) int64 {
	a.mu.Lock()
	defer a.mu.Unlock()
	old := a.v
	a.v = n
	return old
}
