// Package vrt is the controlled scheduler runtime of the /verif schedule explorer (engine E2).
//
// It is compiled INTO the repository's module through a build overlay (as
// github.com/celestiaorg/go-header/verifrt/vrt), so that instrumented copies of the
// repository's packages and the harness share it. Every synchronisation operation of the
// instrumented code calls Point(): while an exploration is active the calling goroutine parks
// there until the scheduler (which runs on synctest quiescence) lets exactly it continue.
package vrt

import (
	"bytes"
	"cmp"
	"fmt"
	"reflect"
	"runtime"
	"sort"
	"strconv"
	"sync"
	"testing/synctest"
	"time"
)

// ---------- thread bookkeeping ----------

type thread struct {
	id     int
	name   string
	wake   chan struct{}
	parked bool // waiting in Point for the scheduler
	point  *pt
	inReal bool // executing a real (possibly blocking) channel operation / sleep
	done   bool
}

type pt struct {
	kind string
	// enabled reports whether granting this point lets the thread make progress now.
	enabled func() bool
	label   string
}

// Choice is one recorded decision of an execution.
type Choice struct {
	N        int  // number of alternatives
	Taken    int  // index taken
	RunFirst bool // alternative 0 keeps the previously running thread running (so >0 is a preemption)
	Select   bool // a select-case preference rather than a thread choice
	Desc     string
}

// Sched is one controlled execution.
type Sched struct {
	mu      sync.Mutex
	active  bool
	threads []*thread
	byGoid  map[uint64]*thread
	current *thread
	// decide returns the alternative to take at a decision with n alternatives.
	decide  func(n int, runFirst, sel bool, desc string) int
	Trace   []Choice
	Steps   int
	MaxStep int
	// Idle counts how often nothing was enabled and virtual time had to pass.
	Idle     int
	Deadlock bool
	Horizon  time.Duration
	Livelock bool
	log      []string
	LogOn    bool
	doneFn   func(noneEnabled bool) bool
	// Events are the traced calls in execution order.
	Events []Event
}

var (
	gmu sync.Mutex
	reg = map[uint64]*Sched{}
)

func goid() uint64 {
	var buf [64]byte
	b := buf[:runtime.Stack(buf[:], false)]
	b = bytes.TrimPrefix(b, []byte("goroutine "))
	i := bytes.IndexByte(b, ' ')
	n, _ := strconv.ParseUint(string(b[:i]), 10, 64)
	return n
}

func schedOf(g uint64) *Sched {
	gmu.Lock()
	defer gmu.Unlock()
	return reg[g]
}

// New creates an execution controller; decide picks alternatives (nil: always 0).
func New(decide func(n int, runFirst, sel bool, desc string) int) *Sched {
	s := &Sched{byGoid: map[uint64]*thread{}, decide: decide, MaxStep: 20000, Horizon: time.Hour}
	return s
}

// Attach registers the calling goroutine (the harness root) with the execution so that
// goroutines it spawns through Go() belong to it.
func (s *Sched) Attach() {
	gmu.Lock()
	reg[goid()] = s
	gmu.Unlock()
}

// Detach removes every goroutine of the execution from the registry.
func (s *Sched) Detach() {
	gmu.Lock()
	for g, x := range reg {
		if x == s {
			delete(reg, g)
		}
	}
	gmu.Unlock()
}

func (s *Sched) logf(format string, a ...any) {
	if s.LogOn {
		s.log = append(s.log, fmt.Sprintf(format, a...))
	}
}

func (s *Sched) Log() []string { return s.log }

// Go starts f as a controlled thread. Called by instrumented `go` statements and by the harness.
func Go(name string, f func()) {
	parent := goid()
	s := schedOf(parent)
	if s == nil {
		go f()
		return
	}
	s.mu.Lock()
	t := &thread{id: len(s.threads), name: name, wake: make(chan struct{}, 1)}
	s.threads = append(s.threads, t)
	s.mu.Unlock()
	go func() {
		g := goid()
		gmu.Lock()
		reg[g] = s
		gmu.Unlock()
		s.mu.Lock()
		s.byGoid[g] = t
		s.mu.Unlock()
		defer func() {
			s.mu.Lock()
			t.done = true
			s.mu.Unlock()
		}()
		Point("start", nil)
		f()
	}()
}

func (s *Sched) self() *thread {
	g := goid()
	s.mu.Lock()
	defer s.mu.Unlock()
	return s.byGoid[g]
}

// Point is a scheduling point. enabled (may be nil = always) tells the scheduler whether the
// operation that follows can complete without blocking on shim state.
func Point(kind string, enabled func() bool) {
	s := schedOf(goid())
	if s == nil {
		return
	}
	s.pointOn(kind, enabled)
}

func (s *Sched) pointOn(kind string, enabled func() bool) {
	s.mu.Lock()
	if !s.active {
		s.mu.Unlock()
		// free mode: shim state still has to be respected (a locked shim mutex really blocks)
		for enabled != nil && !enabled() {
			time.Sleep(time.Microsecond)
		}
		return
	}
	s.mu.Unlock()
	t := s.self()
	if t == nil {
		// an uncontrolled goroutine (e.g. the harness root): behave as in free mode
		for enabled != nil && !enabled() {
			time.Sleep(time.Microsecond)
		}
		return
	}
	s.mu.Lock()
	t.point = &pt{kind: kind, enabled: enabled}
	t.parked = true
	s.mu.Unlock()
	<-t.wake
}

// realBegin/realEnd bracket a real operation that may block durably.
func realBegin() *thread {
	s := schedOf(goid())
	if s == nil {
		return nil
	}
	t := s.self()
	if t == nil {
		return nil
	}
	s.mu.Lock()
	t.inReal = true
	s.mu.Unlock()
	return t
}

func realEnd(t *thread) {
	if t == nil {
		return
	}
	s := schedOf(goid())
	if s == nil {
		return
	}
	s.mu.Lock()
	t.inReal = false
	s.mu.Unlock()
}

// Activate switches to controlled mode: from now on threads park at their scheduling points
// (threads spawned through Go park before running their body).
func (s *Sched) Activate() {
	s.mu.Lock()
	s.active = true
	s.mu.Unlock()
}

// Run activates scheduling, runs until every controlled thread created so far and later is
// done or nothing can progress, then deactivates (releasing everything). It must be called
// from the bubble's root goroutine (which is not a controlled thread).
func (s *Sched) Run() {
	s.mu.Lock()
	s.active = true
	s.mu.Unlock()
	defer s.release()
	var idleStep, idleTotal time.Duration
	for {
		synctest.Wait()
		s.mu.Lock()
		var enabled []*thread
		alive := 0
		for _, t := range s.threads {
			if t.done {
				continue
			}
			alive++
			if t.parked {
				if t.point.enabled == nil || t.point.enabled() {
					enabled = append(enabled, t)
				}
			}
		}
		if s.doneFn != nil && s.doneFn(len(enabled) == 0) {
			s.mu.Unlock()
			return
		}
		if alive == 0 {
			s.mu.Unlock()
			return
		}
		if len(enabled) == 0 {
			s.mu.Unlock()
			// nothing can move: let virtual time pass in growing steps (retry sleeps, then context
			// deadlines); if even the whole horizon does not enable anything it is a deadlock
			if idleTotal > s.Horizon {
				s.Deadlock = true
				return
			}
			if idleStep == 0 {
				idleStep = time.Millisecond
			}
			s.Idle++
			s.logf("idle: time passes (%v)", idleStep)
			time.Sleep(idleStep)
			idleTotal += idleStep
			idleStep *= 10
			continue
		}
		idleStep, idleTotal = 0, 0
		s.Steps++
		if s.Steps > s.MaxStep {
			s.Livelock = true
			s.mu.Unlock()
			return
		}
		// canonical order: the running thread first if still enabled, then ascending ids
		runFirst := false
		ordered := make([]*thread, 0, len(enabled))
		for _, t := range enabled {
			if t == s.current {
				ordered = append(ordered, t)
				runFirst = true
			}
		}
		for _, t := range enabled {
			if t != s.current {
				ordered = append(ordered, t)
			}
		}
		pick := 0
		if len(ordered) > 1 {
			desc := ""
			if s.LogOn {
				for _, t := range ordered {
					desc += fmt.Sprintf("%s@%s ", t.name, t.point.kind)
				}
			}
			s.mu.Unlock()
			pick = s.choose(len(ordered), runFirst, false, desc)
			s.mu.Lock()
		}
		t := ordered[pick]
		s.logf("run %s@%s", t.name, t.point.kind)
		s.current = t
		t.parked = false
		s.mu.Unlock()
		t.wake <- struct{}{}
	}
}

func (s *Sched) choose(n int, runFirst, sel bool, desc string) int {
	k := 0
	if s.decide != nil {
		k = s.decide(n, runFirst, sel, desc)
	}
	if k < 0 || k >= n {
		panic(fmt.Sprintf("vrt: choice %d out of range (%d alternatives): replay diverged", k, n))
	}
	s.Trace = append(s.Trace, Choice{N: n, Taken: k, RunFirst: runFirst, Select: sel, Desc: desc})
	return k
}

// doneFn, when set, ends Run as soon as it reports true (checked at quiescence).
func (s *Sched) SetDone(f func(noneEnabled bool) bool) { s.doneFn = f }

// release switches to free mode and wakes everything that is parked.
func (s *Sched) release() {
	s.mu.Lock()
	s.active = false
	var parked []*thread
	for _, t := range s.threads {
		if t.parked {
			t.parked = false
			parked = append(parked, t)
		}
	}
	s.mu.Unlock()
	for _, t := range parked {
		t.wake <- struct{}{}
	}
}

// Blocked lists the names of controlled threads that are not done (for deadlock reports).
func (s *Sched) Blocked() []string {
	s.mu.Lock()
	defer s.mu.Unlock()
	var out []string
	for _, t := range s.threads {
		if !t.done {
			st := "blocked"
			if t.parked {
				st = "parked@" + t.point.kind
			}
			out = append(out, t.name+":"+st)
		}
	}
	return out
}

// ---------- channel operations ----------

// Send is `c <- v`.
func Send[C ~chan E | ~chan<- E, E any](c C, v E) {
	Point("send", nil)
	t := realBegin()
	reflect.ValueOf(c).Send(reflect.ValueOf(&v).Elem())
	realEnd(t)
}

// Recv is `<-c`.
func Recv[C ~chan E | ~<-chan E, E any](c C) E {
	v, _ := Recv2[C, E](c)
	return v
}

// Recv2 is `v, ok := <-c`.
func Recv2[C ~chan E | ~<-chan E, E any](c C) (E, bool) {
	Point("recv", nil)
	t := realBegin()
	rv, ok := reflect.ValueOf(c).Recv()
	realEnd(t)
	var zero E
	if !ok {
		return zero, false
	}
	return rv.Interface().(E), true
}

// Close is `close(c)`.
func Close[C ~chan E | ~chan<- E, E any](c C) {
	Point("close", nil)
	reflect.ValueOf(c).Close()
}

// Sleep is time.Sleep (a durable block in the bubble; the scheduler lets virtual time pass
// only when nothing else can run).
func Sleep(d time.Duration) {
	Point("sleep", nil)
	t := realBegin()
	time.Sleep(d)
	realEnd(t)
}

// Case is one communication clause of a select.
type Case struct {
	sc  reflect.SelectCase
	set func(v reflect.Value, ok bool)
}

// Zero returns the zero value of the channel's element type (used to declare receive targets).
func Zero[C ~chan E | ~<-chan E, E any](c C) (z E) { return z }

// R is a receive clause storing into *v / *ok (either may be nil).
func R[C ~chan E | ~<-chan E, E any](c C, v *E, ok *bool) Case {
	return Case{
		sc: reflect.SelectCase{Dir: reflect.SelectRecv, Chan: reflect.ValueOf(c)},
		set: func(rv reflect.Value, k bool) {
			if v != nil {
				if k {
					*v = rv.Interface().(E)
				} else {
					var z E
					*v = z
				}
			}
			if ok != nil {
				*ok = k
			}
		},
	}
}

// R0 is a receive clause that discards the value.
func R0[C ~chan E | ~<-chan E, E any](c C) Case {
	return Case{sc: reflect.SelectCase{Dir: reflect.SelectRecv, Chan: reflect.ValueOf(c)}}
}

// ZeroS returns the zero value of a sendable channel's element type.
func ZeroS[C ~chan E | ~chan<- E, E any](c C) (z E) { return z }

// S is a send clause.
func S[C ~chan E | ~chan<- E, E any](c C, v E) Case {
	return Case{sc: reflect.SelectCase{Dir: reflect.SelectSend, Chan: reflect.ValueOf(c), Send: reflect.ValueOf(&v).Elem()}}
}

// Select performs a select over cases; hasDefault tells whether the statement has a default
// clause. It returns the index of the clause that fired, -1 for default.
// The explorer owns the choice among ready clauses: it picks a preferred clause which is tried
// first (non-blocking), then the others in source order; if none is ready the thread blocks on
// the real select (or takes default).
func Select(hasDefault bool, cases ...Case) int {
	s := schedOf(goid())
	pref := 0
	if s != nil {
		s.mu.Lock()
		active := s.active
		s.mu.Unlock()
		if active && s.self() != nil {
			s.pointOn("select", nil)
			if len(cases) > 1 {
				pref = s.choose(len(cases), false, true, "")
			}
		}
	}
	try := func(i int) bool {
		sc := cases[i].sc
		if !sc.Chan.IsValid() || sc.Chan.IsNil() {
			return false
		}
		chosen, rv, ok := reflect.Select([]reflect.SelectCase{sc, {Dir: reflect.SelectDefault}})
		if chosen != 0 {
			return false
		}
		if cases[i].set != nil {
			cases[i].set(rv, ok)
		}
		return true
	}
	if len(cases) > 0 {
		if try(pref) {
			return pref
		}
		for i := range cases {
			if i != pref && try(i) {
				return i
			}
		}
	}
	if hasDefault {
		return -1
	}
	// block on the real select
	scs := make([]reflect.SelectCase, len(cases))
	for i, c := range cases {
		scs[i] = c.sc
	}
	t := realBegin()
	chosen, rv, ok := reflect.Select(scs)
	realEnd(t)
	if cases[chosen].set != nil {
		cases[chosen].set(rv, ok)
	}
	return chosen
}

// Event is one traced call of the instrumented code (observation only, not a scheduling point).
type Event struct {
	Name string
	Args []any
}

// Trace records a call; inserted by the instrumenter at the entry of selected functions.
func Trace(name string, args ...any) {
	s := schedOf(goid())
	if s == nil {
		return
	}
	s.mu.Lock()
	s.Events = append(s.Events, Event{Name: name, Args: args})
	s.mu.Unlock()
}

// SortedValues returns the values of m in ascending key order (deterministic replacement of a
// value-only range over a map).
func SortedValues[K cmp.Ordered, V any](m map[K]V) []V {
	keys := make([]K, 0, len(m))
	for k := range m {
		keys = append(keys, k)
	}
	sort.Slice(keys, func(i, j int) bool { return keys[i] < keys[j] })
	out := make([]V, 0, len(keys))
	for _, k := range keys {
		out = append(out, m[k])
	}
	return out
}
