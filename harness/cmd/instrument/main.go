// Command instrument generates, from the CURRENT working tree of the repository, rewritten
// copies of the non-test files of the given packages in which every synchronisation operation
// goes through the controlled scheduler runtime (vrt / vsync / vatomic), plus the build overlay
// that substitutes them. /repo itself is not touched.
//
//	instrument -repo /repo -out /verif/.out/overlay -rt /verif/harness/vrtsrc store sync
//
// Rewrites (and nothing else):
//
//	import "sync"         -> sync   "<module>/verifrt/vsync"
//	import "sync/atomic"  -> atomic "<module>/verifrt/vatomic"
//	go f(a...)            -> arguments evaluated, then vrt.Go("<file:line>", func() { f(a...) })
//	ch <- v, <-ch, v, ok := <-ch, close(ch), time.Sleep(d)  -> vrt.Send/Recv/Recv2/Close/Sleep
//	for x := range ch     -> for { x, ok := vrt.Recv2(ch); if !ok { break }; ... }   (ch made in the same file)
//	select { ... }        -> switch vrt.Select(hasDefault, cases...) { ... } with the explorer owning the choice
//
// Any construct it cannot rewrite soundly is a hard error (exit 2).
package main

import (
	"bytes"
	"encoding/json"
	"flag"
	"fmt"
	"go/ast"
	"go/format"
	"go/parser"
	"go/token"
	"os"
	"path/filepath"
	"sort"
	"strings"
)

const module = "github.com/celestiaorg/go-header"

// traced function names (observation only: the inserted call records name and non-context parameters)
var traced = map[string]bool{}

// functions in which `for _, v := range m` (m a map) is rewritten to iterate in sorted key order:
// hash-map iteration order is nondeterminism the explorer cannot own otherwise
var sortMapIn = map[string]bool{}

func main() {
	repo := flag.String("repo", "/repo", "repository root")
	out := flag.String("out", "", "output directory")
	rt := flag.String("rt", "", "directory holding vrt/ vsync/ vatomic/ sources")
	trace := flag.String("trace", "", "comma separated function/method names: a vrt.Trace(name, params...) call is inserted as their first statement")
	sortmap := flag.String("sortmap", "", "comma separated function/method names whose value-only range loops iterate a map: rewritten to sorted key order")
	flag.Parse()
	for _, n := range strings.Split(*sortmap, ",") {
		if n != "" {
			sortMapIn[n] = true
		}
	}
	for _, n := range strings.Split(*trace, ",") {
		if n != "" {
			traced[n] = true
		}
	}
	if *out == "" || *rt == "" || flag.NArg() == 0 {
		fmt.Fprintln(os.Stderr, "usage: instrument -repo R -out O -rt RT pkg...")
		os.Exit(2)
	}
	overlay := map[string]string{}
	for _, sub := range []string{"vrt", "vsync", "vatomic"} {
		files, _ := filepath.Glob(filepath.Join(*rt, sub, "*.go"))
		for _, f := range files {
			overlay[filepath.Join(*repo, "verifrt", sub, filepath.Base(f))] = f
		}
	}
	for _, pkg := range flag.Args() {
		files, err := filepath.Glob(filepath.Join(*repo, pkg, "*.go"))
		if err != nil {
			die("%v", err)
		}
		sort.Strings(files)
		for _, f := range files {
			if strings.HasSuffix(f, "_test.go") {
				continue
			}
			src, err := os.ReadFile(f)
			if err != nil {
				die("%v", err)
			}
			res, changed, err := rewrite(f, src)
			if err != nil {
				die("%s: %v", f, err)
			}
			if !changed {
				continue
			}
			dst := filepath.Join(*out, pkg, filepath.Base(f))
			if err := os.MkdirAll(filepath.Dir(dst), 0o755); err != nil {
				die("%v", err)
			}
			if err := os.WriteFile(dst, res, 0o644); err != nil {
				die("%v", err)
			}
			overlay[f] = dst
		}
	}
	b, _ := json.MarshalIndent(map[string]any{"Replace": overlay}, "", " ")
	if err := os.WriteFile(filepath.Join(*out, "overlay.json"), b, 0o644); err != nil {
		die("%v", err)
	}
}

func die(format string, a ...any) {
	fmt.Fprintf(os.Stderr, "instrument: "+format+"\n", a...)
	os.Exit(2)
}

type rewriter struct {
	fset      *token.FileSet
	file      string
	usedVrt   bool
	changed   bool
	tmp       int
	chans     map[string]bool // identifiers assigned from make(chan ...) in this file
	generated map[ast.Stmt]bool
	err       error
}

func (r *rewriter) fail(n ast.Node, format string, a ...any) {
	if r.err == nil {
		r.err = fmt.Errorf("%s: %s", r.fset.Position(n.Pos()), fmt.Sprintf(format, a...))
	}
}

func (r *rewriter) name(prefix string) *ast.Ident {
	r.tmp++
	return ast.NewIdent(fmt.Sprintf("_vrt%s%d", prefix, r.tmp))
}

func vrtCall(fn string, args ...ast.Expr) *ast.CallExpr {
	return &ast.CallExpr{Fun: &ast.SelectorExpr{X: ast.NewIdent("vrt"), Sel: ast.NewIdent(fn)}, Args: args}
}

func rewrite(path string, src []byte) ([]byte, bool, error) {
	fset := token.NewFileSet()
	f, err := parser.ParseFile(fset, path, src, parser.ParseComments)
	if err != nil {
		return nil, false, err
	}
	// keep build-constrained hook files as they are unless they need rewriting too
	r := &rewriter{fset: fset, file: filepath.Base(path), chans: map[string]bool{}, generated: map[ast.Stmt]bool{}}
	// keep only the comments above the package clause (build constraints); the rewritten nodes have
	// no positions, so interior comments would be misplaced by the printer
	var keep []*ast.CommentGroup
	for _, cg := range f.Comments {
		if cg.End() < f.Package {
			keep = append(keep, cg)
		}
	}
	f.Comments = keep
	f.Doc = nil
	// imports
	for _, imp := range f.Imports {
		switch imp.Path.Value {
		case `"sync"`:
			if imp.Name != nil && imp.Name.Name != "sync" {
				return nil, false, fmt.Errorf("renamed import of sync is not supported")
			}
			imp.Name = ast.NewIdent("sync")
			imp.Path.Value = `"` + module + `/verifrt/vsync"`
			r.changed = true
		case `"sync/atomic"`:
			if imp.Name != nil && imp.Name.Name != "atomic" {
				return nil, false, fmt.Errorf("renamed import of sync/atomic is not supported")
			}
			imp.Name = ast.NewIdent("atomic")
			imp.Path.Value = `"` + module + `/verifrt/vatomic"`
			r.changed = true
		}
	}
	// channel identifiers made in this file
	ast.Inspect(f, func(n ast.Node) bool {
		if as, ok := n.(*ast.AssignStmt); ok && len(as.Lhs) == len(as.Rhs) {
			for i, rhs := range as.Rhs {
				if call, ok := rhs.(*ast.CallExpr); ok {
					if id, ok := call.Fun.(*ast.Ident); ok && id.Name == "make" && len(call.Args) > 0 {
						if _, ok := call.Args[0].(*ast.ChanType); ok {
							if l, ok := as.Lhs[i].(*ast.Ident); ok {
								r.chans[l.Name] = true
							}
						}
					}
				}
			}
		}
		return true
	})
	for _, d := range f.Decls {
		if fd, ok := d.(*ast.FuncDecl); ok && fd.Body != nil {
			if sortMapIn[fd.Name.Name] {
				ast.Inspect(fd.Body, func(n ast.Node) bool {
					if rs, ok := n.(*ast.RangeStmt); ok && rs.Value != nil {
						if k, ok := rs.Key.(*ast.Ident); ok && k.Name == "_" {
							rs.X = vrtCall("SortedValues", rs.X)
							r.usedVrt, r.changed = true, true
						}
					}
					return true
				})
			}
			fd.Body = r.block(fd.Body)
			r.terminate(fd.Type, fd.Body)
			if traced[fd.Name.Name] {
				args := []ast.Expr{&ast.BasicLit{Kind: token.STRING, Value: fmt.Sprintf("%q", fd.Name.Name)}}
				for _, p := range fd.Type.Params.List {
					if sel, ok := p.Type.(*ast.SelectorExpr); ok {
						if x, ok := sel.X.(*ast.Ident); ok && x.Name == "context" {
							continue
						}
					}
					for _, n := range p.Names {
						if n.Name != "_" {
							args = append(args, ast.NewIdent(n.Name))
						}
					}
				}
				fd.Body.List = append([]ast.Stmt{&ast.ExprStmt{X: vrtCall("Trace", args...)}}, fd.Body.List...)
				r.usedVrt, r.changed = true, true
			}
		}
	}
	if r.err != nil {
		return nil, false, r.err
	}
	if !r.changed {
		return nil, false, nil
	}
	if r.usedVrt {
		addImport(f, "vrt", module+"/verifrt/vrt")
	}
	var buf bytes.Buffer
	if err := format.Node(&buf, fset, f); err != nil {
		return nil, false, err
	}
	return buf.Bytes(), true, nil
}

func addImport(f *ast.File, name, path string) {
	spec := &ast.ImportSpec{Name: ast.NewIdent(name), Path: &ast.BasicLit{Kind: token.STRING, Value: `"` + path + `"`}}
	for _, d := range f.Decls {
		if gd, ok := d.(*ast.GenDecl); ok && gd.Tok == token.IMPORT {
			gd.Specs = append(gd.Specs, spec)
			if !gd.Lparen.IsValid() {
				gd.Lparen = gd.Pos()
				gd.Rparen = gd.End()
			}
			return
		}
	}
	f.Decls = append([]ast.Decl{&ast.GenDecl{Tok: token.IMPORT, Specs: []ast.Spec{spec}}}, f.Decls...)
}

// terminate appends an unreachable panic when a function with results now ends in a rewritten
// select (a select is a terminating statement, the switch that replaces it is not).
func (r *rewriter) terminate(ft *ast.FuncType, body *ast.BlockStmt) {
	if ft.Results == nil || len(ft.Results.List) == 0 || len(body.List) == 0 {
		return
	}
	if r.generated[body.List[len(body.List)-1]] {
		body.List = append(body.List, &ast.ExprStmt{X: &ast.CallExpr{Fun: ast.NewIdent("panic"), Args: []ast.Expr{&ast.BasicLit{Kind: token.STRING, Value: `"vrt: unreachable"`}}}})
	}
}

func (r *rewriter) block(b *ast.BlockStmt) *ast.BlockStmt {
	if b == nil {
		return nil
	}
	b.List = r.stmts(b.List)
	return b
}

func (r *rewriter) stmts(list []ast.Stmt) []ast.Stmt {
	out := make([]ast.Stmt, 0, len(list))
	for _, s := range list {
		out = append(out, r.stmt(s))
	}
	return out
}

func (r *rewriter) stmt(s ast.Stmt) ast.Stmt {
	switch n := s.(type) {
	case nil:
		return nil
	case *ast.BlockStmt:
		return r.block(n)
	case *ast.GoStmt:
		return r.goStmt(n)
	case *ast.SendStmt:
		r.usedVrt, r.changed = true, true
		return &ast.ExprStmt{X: vrtCall("Send", r.expr(n.Chan), r.expr(n.Value))}
	case *ast.SelectStmt:
		return r.selectStmt(n)
	case *ast.RangeStmt:
		return r.rangeStmt(n)
	case *ast.ExprStmt:
		n.X = r.expr(n.X)
		return n
	case *ast.AssignStmt:
		// v, ok := <-ch
		if len(n.Lhs) == 2 && len(n.Rhs) == 1 {
			if u, ok := n.Rhs[0].(*ast.UnaryExpr); ok && u.Op == token.ARROW {
				r.usedVrt, r.changed = true, true
				n.Rhs[0] = vrtCall("Recv2", r.expr(u.X))
				return n
			}
		}
		for i := range n.Rhs {
			n.Rhs[i] = r.expr(n.Rhs[i])
		}
		for i := range n.Lhs {
			n.Lhs[i] = r.expr(n.Lhs[i])
		}
		return n
	case *ast.DeclStmt:
		if gd, ok := n.Decl.(*ast.GenDecl); ok {
			for _, sp := range gd.Specs {
				if vs, ok := sp.(*ast.ValueSpec); ok {
					for i := range vs.Values {
						vs.Values[i] = r.expr(vs.Values[i])
					}
				}
			}
		}
		return n
	case *ast.ReturnStmt:
		for i := range n.Results {
			n.Results[i] = r.expr(n.Results[i])
		}
		return n
	case *ast.IfStmt:
		n.Init = r.stmt(n.Init)
		n.Cond = r.expr(n.Cond)
		n.Body = r.block(n.Body)
		n.Else = r.stmt(n.Else)
		return n
	case *ast.ForStmt:
		n.Init = r.stmt(n.Init)
		if n.Cond != nil {
			n.Cond = r.expr(n.Cond)
		}
		n.Post = r.stmt(n.Post)
		n.Body = r.block(n.Body)
		return n
	case *ast.SwitchStmt:
		n.Init = r.stmt(n.Init)
		if n.Tag != nil {
			n.Tag = r.expr(n.Tag)
		}
		for _, c := range n.Body.List {
			cc := c.(*ast.CaseClause)
			for i := range cc.List {
				cc.List[i] = r.expr(cc.List[i])
			}
			cc.Body = r.stmts(cc.Body)
		}
		return n
	case *ast.TypeSwitchStmt:
		n.Init = r.stmt(n.Init)
		n.Assign = r.stmt(n.Assign)
		for _, c := range n.Body.List {
			cc := c.(*ast.CaseClause)
			cc.Body = r.stmts(cc.Body)
		}
		return n
	case *ast.LabeledStmt:
		if _, ok := n.Stmt.(*ast.SelectStmt); ok {
			r.fail(n, "labelled select is not supported")
		}
		n.Stmt = r.stmt(n.Stmt)
		return n
	case *ast.DeferStmt:
		n.Call = r.expr(n.Call).(*ast.CallExpr)
		return n
	case *ast.IncDecStmt:
		n.X = r.expr(n.X)
		return n
	case *ast.BranchStmt, *ast.EmptyStmt:
		return n
	case *ast.CommClause, *ast.CaseClause:
		r.fail(n, "unexpected clause")
		return n
	default:
		r.fail(s, "unsupported statement %T", s)
		return s
	}
}

// expr rewrites expressions (receives, close, time.Sleep, function literals).
func (r *rewriter) expr(e ast.Expr) ast.Expr {
	switch n := e.(type) {
	case nil:
		return nil
	case *ast.UnaryExpr:
		if n.Op == token.ARROW {
			r.usedVrt, r.changed = true, true
			return vrtCall("Recv", r.expr(n.X))
		}
		n.X = r.expr(n.X)
		return n
	case *ast.CallExpr:
		if id, ok := n.Fun.(*ast.Ident); ok && id.Name == "close" && len(n.Args) == 1 {
			r.usedVrt, r.changed = true, true
			return vrtCall("Close", r.expr(n.Args[0]))
		}
		if sel, ok := n.Fun.(*ast.SelectorExpr); ok {
			if x, ok := sel.X.(*ast.Ident); ok && x.Name == "time" && sel.Sel.Name == "Sleep" {
				r.usedVrt, r.changed = true, true
				return vrtCall("Sleep", r.expr(n.Args[0]))
			}
		}
		n.Fun = r.expr(n.Fun)
		for i := range n.Args {
			n.Args[i] = r.expr(n.Args[i])
		}
		return n
	case *ast.FuncLit:
		n.Body = r.block(n.Body)
		r.terminate(n.Type, n.Body)
		return n
	case *ast.ParenExpr:
		n.X = r.expr(n.X)
		return n
	case *ast.BinaryExpr:
		n.X, n.Y = r.expr(n.X), r.expr(n.Y)
		return n
	case *ast.SelectorExpr:
		n.X = r.expr(n.X)
		return n
	case *ast.IndexExpr:
		n.X, n.Index = r.expr(n.X), r.expr(n.Index)
		return n
	case *ast.SliceExpr:
		n.X = r.expr(n.X)
		return n
	case *ast.StarExpr:
		n.X = r.expr(n.X)
		return n
	case *ast.TypeAssertExpr:
		n.X = r.expr(n.X)
		return n
	case *ast.CompositeLit:
		for i := range n.Elts {
			n.Elts[i] = r.expr(n.Elts[i])
		}
		return n
	case *ast.KeyValueExpr:
		n.Value = r.expr(n.Value)
		return n
	default:
		return e
	}
}

func (r *rewriter) goStmt(n *ast.GoStmt) ast.Stmt {
	r.usedVrt, r.changed = true, true
	call := n.Call
	var pre []ast.Stmt
	// evaluate arguments now
	for i, a := range call.Args {
		if _, isLit := a.(*ast.BasicLit); isLit {
			continue
		}
		id := r.name("a")
		pre = append(pre, &ast.AssignStmt{Lhs: []ast.Expr{id}, Tok: token.DEFINE, Rhs: []ast.Expr{r.expr(a)}})
		call.Args[i] = id
	}
	switch fn := call.Fun.(type) {
	case *ast.FuncLit:
		fn.Body = r.block(fn.Body)
		r.terminate(fn.Type, fn.Body)
	case *ast.SelectorExpr:
		// method value: receiver evaluated now
		if _, ok := fn.X.(*ast.Ident); !ok {
			id := r.name("r")
			pre = append(pre, &ast.AssignStmt{Lhs: []ast.Expr{id}, Tok: token.DEFINE, Rhs: []ast.Expr{r.expr(fn.X)}})
			fn.X = id
		}
	case *ast.Ident:
	default:
		r.fail(n, "unsupported go statement target %T", call.Fun)
	}
	pos := r.fset.Position(n.Pos())
	label := &ast.BasicLit{Kind: token.STRING, Value: fmt.Sprintf("%q", fmt.Sprintf("%s:%d", r.file, pos.Line))}
	body := &ast.BlockStmt{List: []ast.Stmt{&ast.ExprStmt{X: call}}}
	goCall := &ast.ExprStmt{X: vrtCall("Go", label, &ast.FuncLit{Type: &ast.FuncType{Params: &ast.FieldList{}}, Body: body})}
	return &ast.BlockStmt{List: append(pre, goCall)}
}

func (r *rewriter) rangeStmt(n *ast.RangeStmt) ast.Stmt {
	id, ok := n.X.(*ast.Ident)
	if !ok || !r.chans[id.Name] {
		n.X = r.expr(n.X)
		n.Body = r.block(n.Body)
		return n
	}
	if n.Value != nil {
		r.fail(n, "range over channel with two variables")
	}
	r.usedVrt, r.changed = true, true
	okID := r.name("ok")
	var lhs ast.Expr = ast.NewIdent("_")
	if n.Key != nil {
		lhs = n.Key
	}
	tok := n.Tok
	if tok == token.ILLEGAL {
		tok = token.DEFINE
	}
	// `v, ok := Recv2(ch)`: with `=` the ok variable must exist, so always define in an inner scope
	recv := &ast.AssignStmt{Lhs: []ast.Expr{lhs, okID}, Tok: token.DEFINE, Rhs: []ast.Expr{vrtCall("Recv2", id)}}
	if tok == token.ASSIGN {
		tmp := r.name("v")
		recv = &ast.AssignStmt{Lhs: []ast.Expr{tmp, okID}, Tok: token.DEFINE, Rhs: []ast.Expr{vrtCall("Recv2", id)}}
		n.Body.List = append([]ast.Stmt{&ast.AssignStmt{Lhs: []ast.Expr{lhs}, Tok: token.ASSIGN, Rhs: []ast.Expr{tmp}}}, n.Body.List...)
	}
	brk := &ast.IfStmt{Cond: &ast.UnaryExpr{Op: token.NOT, X: okID}, Body: &ast.BlockStmt{List: []ast.Stmt{&ast.BranchStmt{Tok: token.BREAK}}}}
	body := r.block(n.Body)
	body.List = append([]ast.Stmt{recv, brk}, body.List...)
	return &ast.ForStmt{Body: body}
}

func (r *rewriter) selectStmt(n *ast.SelectStmt) ast.Stmt {
	r.usedVrt, r.changed = true, true
	var pre []ast.Stmt
	var cases []ast.Expr
	var clauses []ast.Stmt
	hasDefault := false
	idx := 0
	for _, c := range n.Body.List {
		cc := c.(*ast.CommClause)
		body := r.stmts(cc.Body)
		if cc.Comm == nil {
			hasDefault = true
			clauses = append(clauses, &ast.CaseClause{List: []ast.Expr{&ast.UnaryExpr{Op: token.SUB, X: &ast.BasicLit{Kind: token.INT, Value: "1"}}}, Body: body})
			continue
		}
		chID := r.name("c")
		switch comm := cc.Comm.(type) {
		case *ast.SendStmt:
			valID := r.name("s")
			pre = append(pre,
				&ast.AssignStmt{Lhs: []ast.Expr{chID}, Tok: token.DEFINE, Rhs: []ast.Expr{r.expr(comm.Chan)}},
				&ast.AssignStmt{Lhs: []ast.Expr{valID}, Tok: token.DEFINE, Rhs: []ast.Expr{vrtCall("ZeroS", chID)}},
				&ast.AssignStmt{Lhs: []ast.Expr{valID}, Tok: token.ASSIGN, Rhs: []ast.Expr{r.expr(comm.Value)}})
			cases = append(cases, vrtCall("S", chID, valID))
		case *ast.ExprStmt:
			u, ok := comm.X.(*ast.UnaryExpr)
			if !ok || u.Op != token.ARROW {
				r.fail(comm, "unsupported select communication")
				continue
			}
			pre = append(pre, &ast.AssignStmt{Lhs: []ast.Expr{chID}, Tok: token.DEFINE, Rhs: []ast.Expr{r.expr(u.X)}})
			cases = append(cases, vrtCall("R0", chID))
		case *ast.AssignStmt:
			u, ok := comm.Rhs[0].(*ast.UnaryExpr)
			if !ok || u.Op != token.ARROW || len(comm.Rhs) != 1 || len(comm.Lhs) > 2 {
				r.fail(comm, "unsupported select communication")
				continue
			}
			valID, okID := r.name("v"), r.name("o")
			pre = append(pre,
				&ast.AssignStmt{Lhs: []ast.Expr{chID}, Tok: token.DEFINE, Rhs: []ast.Expr{r.expr(u.X)}},
				&ast.AssignStmt{Lhs: []ast.Expr{valID}, Tok: token.DEFINE, Rhs: []ast.Expr{vrtCall("Zero", chID)}},
				&ast.DeclStmt{Decl: &ast.GenDecl{Tok: token.VAR, Specs: []ast.Spec{&ast.ValueSpec{Names: []*ast.Ident{okID}, Type: ast.NewIdent("bool")}}}})
			cases = append(cases, vrtCall("R", chID, &ast.UnaryExpr{Op: token.AND, X: valID}, &ast.UnaryExpr{Op: token.AND, X: okID}))
			// bind the clause's variables at the top of its body
			rhs := []ast.Expr{valID}
			if len(comm.Lhs) == 2 {
				rhs = append(rhs, okID)
			}
			allBlank := true
			for _, l := range comm.Lhs {
				if id, ok := l.(*ast.Ident); !ok || id.Name != "_" {
					allBlank = false
				}
			}
			if !allBlank {
				body = append([]ast.Stmt{&ast.AssignStmt{Lhs: comm.Lhs, Tok: comm.Tok, Rhs: rhs}}, body...)
			}
			// silence "declared and not used" for the helper variables
			body = append([]ast.Stmt{&ast.AssignStmt{Lhs: []ast.Expr{ast.NewIdent("_"), ast.NewIdent("_")}, Tok: token.ASSIGN, Rhs: []ast.Expr{valID, okID}}}, body...)
		default:
			r.fail(cc, "unsupported select communication %T", cc.Comm)
			continue
		}
		clauses = append(clauses, &ast.CaseClause{List: []ast.Expr{&ast.BasicLit{Kind: token.INT, Value: fmt.Sprint(idx)}}, Body: body})
		idx++
	}
	def := "false"
	if hasDefault {
		def = "true"
	}
	sel := vrtCall("Select", append([]ast.Expr{ast.NewIdent(def)}, cases...)...)
	sw := &ast.SwitchStmt{Tag: sel, Body: &ast.BlockStmt{List: clauses}}
	blk := &ast.BlockStmt{List: append(pre, sw)}
	r.generated[blk] = true
	return blk
}
