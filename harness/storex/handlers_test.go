package storex

import (
	"context"
	"errors"
	"fmt"
	"time"

	"github.com/ipfs/go-datastore"

	"verif/vk"
)

// handlerRec is an instrumented OnDelete handler.
type handlerRec struct {
	Idx int
	// FailAt: the k-th invocation (1-based) fails; 0 = never. Panic selects panic instead of error.
	FailAt int
	Panic  bool
	// WrapNF: the handler's error wraps datastore.ErrNotFound (a handler cleaning up its own records
	// in some datastore and propagating that datastore's error)
	WrapNF bool
	// FailFromHeight: every invocation for a height >= this fails (0 = off); models a handler that
	// keeps rejecting a region, so several parallel workers fail in one call
	FailFromHeight uint64
	// Read: read the header being deleted through GetByHeight (the documented guarantee).
	Read bool
	// Locked: guard the record with a mutex (parallel deletion path calls handlers concurrently).
	Locked bool

	Calls []handlerCall
	w     *World
}

type handlerCall struct {
	Height   uint64
	Readable string // result of GetByHeight at call time ("" if not read)
	LogLen   int    // datastore commit-log length at call time
	Failed   bool
	// RawPresent: raw datastore still holds the header/height keys at call time (flushed headers only)
	RawPresent bool
}

var errHandler = errors.New("vk: injected handler failure")

func (h *handlerRec) attach(w *World) {
	h.w = w
	w.St.OnDelete(func(ctx context.Context, height uint64) error {
		c := handlerCall{Height: height, LogLen: len(w.DS.Log())}
		if h.Read {
			rctx, cancel := context.WithTimeout(ctx, time.Second)
			got, err := w.St.GetByHeight(rctx, height)
			cancel()
			c.Readable = classifyGet(got, err, w.C.At(height))
		}
		if h.Locked {
			handlerMu.Lock()
			defer handlerMu.Unlock()
		}
		n := len(h.Calls) + 1
		if h.FailFromHeight != 0 && height >= h.FailFromHeight {
			c.Failed = true
			h.Calls = append(h.Calls, c)
			return errHandler
		}
		if h.FailAt != 0 && n == h.FailAt {
			c.Failed = true
			h.Calls = append(h.Calls, c)
			if h.Panic {
				panic(fmt.Sprintf("vk: injected handler panic at call %d (height %d)", n, height))
			}
			if h.WrapNF {
				return fmt.Errorf("vk: handler's own records of height %d: %w", height, datastore.ErrNotFound)
			}
			return errHandler
		}
		h.Calls = append(h.Calls, c)
		return nil
	})
}

func addHandlers(w *World, hs ...*handlerRec) {
	for i, h := range hs {
		h.Idx = i
		w.Handlers = append(w.Handlers, h)
		h.attach(w)
	}
}

var _ = vk.Epoch
