package storex

import (
	"fmt"
	"strings"
	"testing"
	"time"

	"verif/vk"
)

type alphaOpts struct {
	MaxSlice   int
	Gapped     bool
	Deletes    bool
	Restart    bool
	ReadAll    bool
	AllDeletes bool
	Reversed   bool
	Burst      bool
	// AppendDel: Append of the next 1..2 headers directly followed (no Sync in between, slow disk) by a
	// DeleteRange of the tail header / the old chain / the new headers / everything
	AppendDel bool
}

// enabledOps lists the alphabet in a state, simplest first.
func enabledOps(cfg Cfg, head, tail uint64, a alphaOpts) []Op {
	n := uint64(cfg.N)
	var ops []Op
	for ln := uint64(1); ln <= uint64(a.MaxSlice); ln++ {
		for lo := uint64(1); lo+ln-1 <= n; lo++ {
			ops = append(ops, Op{K: "append", Lo: lo, Hi: lo + ln - 1})
		}
	}
	if a.Reversed {
		for ln := uint64(2); ln <= uint64(a.MaxSlice); ln++ {
			for lo := uint64(1); lo+ln-1 <= n; lo++ {
				ops = append(ops, Op{K: "revappend", Lo: lo, Hi: lo + ln - 1})
			}
		}
	}
	if a.Burst {
		for lo := uint64(1); lo+2 <= n; lo++ {
			ops = append(ops, Op{K: "burstrestart", Lo: lo, Hi: lo + 2})
		}
	}
	if a.Gapped {
		for lo := uint64(1); lo+2 <= n; lo++ {
			ops = append(ops, Op{K: "gapappend", Lo: lo, Hi: lo + 2})
		}
	} else if head == 0 && n >= 3 {
		// quick tier: a non-contiguous very first batch only (see F21)
		ops = append(ops, Op{K: "gapappend", Lo: 1, Hi: 3})
	}
	if a.Deletes && head != 0 {
		add := func(f, t uint64) {
			for _, o := range ops {
				if o.K == "delete" && o.From == f && o.To == t {
					return
				}
			}
			ops = append(ops, Op{K: "delete", From: f, To: t})
		}
		add(tail, tail+1)
		add(head, head+1)
		if head > tail {
			add(tail, tail+2)
			add(head-1, head+1)
		}
		add(tail, head+1)
		if head >= tail+2 {
			add(tail+1, tail+2) // middle: must be rejected
		}
		add(tail, head+2) // beyond head+1: must be rejected
	}
	if a.AppendDel && head != 0 {
		for hi := head + 1; hi <= head+2 && hi <= n; hi++ {
			lo := head + 1
			for _, d := range [][2]uint64{{tail, tail + 1}, {tail, lo}, {lo, hi + 1}, {tail, hi + 1}, {hi, hi + 1}} {
				dup := false
				for _, o := range ops {
					if o.K == "appenddel" && o.Hi == hi && o.From == d[0] && o.To == d[1] {
						dup = true
					}
				}
				if !dup {
					ops = append(ops, Op{K: "appenddel", Lo: lo, Hi: hi, From: d[0], To: d[1]})
				}
			}
		}
	}
	if a.Restart {
		ops = append(ops, Op{K: "restart"})
		if a.AppendDel && head != 0 && head+1 <= n {
			ops = append(ops, Op{K: "restartappend", Lo: head + 1, Hi: head + 1})
		}
	}
	if a.ReadAll {
		ops = append(ops, Op{K: "readall"})
	}
	return ops
}

// histFeat summarises a history for violation classes.
func histFeat(cfg Cfg, hist []Op) string {
	kinds := map[string]bool{}
	for _, o := range hist {
		kinds[o.K] = true
	}
	var ks []string
	for _, k := range []string{"gapappend", "revappend", "burstrestart", "appenddel", "restartappend", "delete", "restart", "readall"} {
		if kinds[k] {
			ks = append(ks, k)
		}
	}
	last := "none"
	if len(hist) > 0 {
		last = hist[len(hist)-1].K
	}
	return fmt.Sprintf("%s,txn=%v,last=%s,with=%s", cfg.BatchClass(), cfg.Txn, last, strings.Join(ks, "+"))
}

type c04Case struct {
	Cfg  Cfg  `json:"cfg"`
	Hist []Op `json:"hist"`
}

// runHist replays hist on a fresh world inside a bubble and applies fn at the end
// (before the store is closed). It reports panics/harness failures through run.
func runHist(t *testing.T, run *vk.Run, id string, cfg Cfg, hist []Op, handlers func(w *World), fn func(w *World)) {
	run.Inflight(shardOf(t), c04Case{cfg, hist})
	res := vk.Bubble(t, func() {
		w, err := NewWorld(cfg, nil)
		if err != nil {
			run.HarnessError("%s: cannot open store for %v: %v", id, cfg, err)
			return
		}
		defer w.Close()
		if handlers != nil {
			handlers(w)
		}
		for i, op := range hist {
			_, pan := w.Apply(op)
			if pan != "" {
				run.Violate(id+"/panic/"+histFeat(cfg, hist[:i+1]), c04Case{cfg, hist[:i+1]}, "panic in %s after %s: %s", op, histString(hist[:i]), pan)
				return
			}
		}
		fn(w)
	})
	if res.Panic != "" {
		run.Violate(id+"/panic/"+histFeat(cfg, hist), c04Case{cfg, hist}, "panic while running %s: %s\n%s", histString(hist), res.Panic, res.Stack)
	}
	if res.Deadlock {
		run.Violate(id+"/goroutine-leak-or-deadlock/"+histFeat(cfg, hist), c04Case{cfg, hist}, "bubble ended with blocked goroutines after %s", histString(hist))
	}
}

func c04Configs(run *vk.Run) []Cfg {
	n := vk.Pick(run, 5, 6)
	var out []Cfg
	for _, b := range []int{1, 2, 3, 64} {
		for _, c := range []int{2, 0} {
			for _, txn := range []bool{false, true} {
				if !run.Thorough() && b == 3 {
					continue
				}
				out = append(out, Cfg{N: n, Batch: b, Cache: c, Txn: txn})
			}
		}
	}
	return out
}

func checkC04(t *testing.T, run *vk.Run, cfg Cfg, hist []Op, a alphaOpts) vk.Step[Op] {
	var step vk.Step[Op]
	runHist(t, run, "C04", cfg, hist, nil, func(w *World) {
		step.Key = w.StateKey()
		head, tail := w.headTail()
		step.Next = enabledOps(cfg, head, tail, a)
		o := w.Observe()
		run.Distinct(cfg.String() + "|" + o.Key())
		w.CheckInvariants(o, false, func(clause, msg string) {
			run.Violate("C04/"+clause+"/"+histFeat(cfg, hist), c04Case{cfg, hist}, "after [%s] on %v: %s", histString(hist), cfg, msg)
		})
	})
	if step.Key == "" {
		step.Skip = true
	}
	return step
}

func TestC04(t *testing.T) {
	run := vk.NewRun("C04", "model_checking")
	defer run.Finish()
	run.SetRule("breadth-first exploration of all histories over {Append of every contiguous chain slice of length 1..3 (thorough: + gapped pairs), tail/head/whole/middle/beyond DeleteRange, Append directly followed by DeleteRange on a slow datastore, Restart, ReadAll} (+ a restart probe on every state of the last level) on the real store.Store for every (batch size, cache size, datastore flavour); states deduplicated on (datastore image, pending set, cache key lists, pointers, published height, model); distinct = distinct public-API observation vectors")
	run.Assume("2Q cache ghost lists are not part of the state key (cache key lists in order are)")
	run.Assume("reference model = set of live heights; acceptance reference uses the observed Head/Tail")

	var rc c04Case
	if is, err := vk.ReplayCase(&rc); is {
		if err != nil {
			t.Fatal(err)
		}
		checkC04(t, run, rc.Cfg, rc.Hist, alphaOpts{})
		fmt.Printf("replayed %s on %v: violations=%d\n", histString(rc.Hist), rc.Cfg, run.Violations())
		return
	}
	depth := vk.Pick(run, 3, 4)
	a := alphaOpts{MaxSlice: 3, Gapped: run.Thorough(), Reversed: true, Deletes: true, Restart: true, ReadAll: true, AppendDel: true}
	dl := vk.NewDeadline(vk.Pick(run, 8*time.Minute, 45*time.Minute))
	run.Set("depth", depth)
	totalStates, totalTrans := 0, 0
	var perCfg []string
	for _, cfg := range c04Configs(run) {
		cfg := cfg
		r := vk.BFS(t, depth, vk.NumShards(), dl, func(t *testing.T, shard int, hist []Op) vk.Step[Op] {
			run.AddEval(1)
			return checkC04(t, run, cfg, hist, a)
		})
		totalStates += r.States
		totalTrans += r.Transitions
		perCfg = append(perCfg, fmt.Sprintf("%v: states=%d transitions=%d maxdepth=%d", cfg, r.States, r.Transitions, r.MaxDepth))
		if r.Capped {
			run.NotExhaustive("time budget hit during " + cfg.String())
		}
		// restart probe: the states of the last level are not expanded by the search; a clean
		// Stop/Start is applied to each of them all the same (the invariants are owed after a restart too)
		var frontier [][]Op
		for _, h := range r.Histories {
			if len(h) == depth && h[len(h)-1].K != "restart" {
				frontier = append(frontier, h)
			}
		}
		fq := vk.NewWorkQueue(len(frontier))
		vk.Shards(t, vk.NumShards(), func(t *testing.T, shard int) {
			for {
				i, ok := fq.Next()
				if !ok || dl.Hit() {
					return
				}
				run.AddEval(1)
				checkC04(t, run, cfg, append(append([]Op(nil), frontier[i]...), Op{K: "restart"}), a)
			}
		})
		totalTrans += len(frontier)
		// determinism: re-execute a subset of histories, the state key must not change
		for i := 0; i < len(r.Histories); i += 1 + len(r.Histories)/40 {
			k1 := checkC04(t, run, cfg, r.Histories[i], a).Key
			k2 := checkC04(t, run, cfg, r.Histories[i], a).Key
			if k1 != k2 {
				run.HarnessError("replay divergence for %s on %v:\n%s\n%s", histString(r.Histories[i]), cfg, k1, k2)
			}
			run.AddValidated(1)
		}
		if len(r.Histories) > 5 {
			run.Sample(map[string]any{"cfg": cfg.String(), "history": histString(r.Histories[len(r.Histories)-1])})
		}
	}
	run.AddStates(int64(totalStates))
	run.AddTransitions(int64(totalTrans))
	run.Set("per_config", perCfg)
}

// shardOf derives a small integer from the subtest name (".../sNN").
func shardOf(t *testing.T) int {
	name := t.Name()
	i := strings.LastIndex(name, "/s")
	if i < 0 {
		return 0
	}
	n := 0
	fmt.Sscanf(name[i+2:], "%d", &n)
	return n
}
