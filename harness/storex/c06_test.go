package storex

import (
	"fmt"
	"sort"
	"strings"
	"testing"
	"time"

	"verif/vk"
)

type c06Case struct {
	Mode string `json:"mode"` // restart | crash | fault
	Cfg  Cfg    `json:"cfg"`
	Hist []Op   `json:"hist"`
	// crash: number of commit-log entries that survive
	Prefix int `json:"prefix,omitempty"`
	// fault: first failing write attempt and number of consecutive failures
	FailFrom int `json:"fail_from,omitempty"`
	FailN    int `json:"fail_n,omitempty"`
}

func histKinds(hist []Op) string {
	kinds := map[string]bool{}
	for _, o := range hist {
		kinds[o.K] = true
	}
	var ks []string
	for _, k := range []string{"append", "gapappend", "burstrestart", "delete", "restart", "readall"} {
		if kinds[k] {
			ks = append(ks, k)
		}
	}
	return strings.Join(ks, "+")
}

// c06Restart: clean Stop/Start must reproduce the observation vector.
func c06Restart(t *testing.T, run *vk.Run, cfg Cfg, hist []Op) vk.Step[Op] {
	var step vk.Step[Op]
	c := c06Case{Mode: "restart", Cfg: cfg, Hist: hist}
	feat := fmt.Sprintf("%s,txn=%v,with=%s", cfg.BatchClass(), cfg.Txn, histKinds(hist))
	// run A: observe before restart
	var before Obs
	okA := false
	runHist(t, run, "C06", cfg, hist, nil, func(w *World) {
		step.Key = w.StateKey()
		head, tail := w.headTail()
		step.Next = enabledOps(cfg, head, tail, alphaOpts{MaxSlice: 3, Deletes: true, Restart: true, Burst: true})
		before = w.Observe()
		okA = true
	})
	if !okA {
		step.Skip = true
		return step
	}
	// run B: same history, restart, observe
	runHist(t, run, "C06", cfg, hist, nil, func(w *World) {
		err, pan := w.Apply(Op{K: "restart"})
		if pan != "" || err != nil {
			run.Violate("C06/restart-fails/"+feat, c, "Stop/Start after [%s] on %v: err=%v panic=%s", histString(hist), cfg, err, pan)
			return
		}
		after := w.Observe()
		after.Pending, before.Pending = nil, nil // the write batch is internal, a restart flushes it
		run.Distinct("restart|" + cfg.String() + "|" + after.Key())
		if after.Key() != before.Key() {
			run.Violate("C06/restart-changes-observation/"+feat, c, "after [%s] on %v a clean restart changed what the store reports:\nbefore %s\nafter  %s", histString(hist), cfg, before.Key(), after.Key())
		}
	})
	return step
}

// c06Crash: reopen on every prefix of the commit log that ends inside the LAST operation of
// hist (or inside the final clean Stop). Earlier prefixes belong to the parent history: the
// crash image only depends on (parent state, partial effect of the last op), and the BFS runs
// this for every transition out of every distinct state.
func c06Crash(t *testing.T, run *vk.Run, cfg Cfg, hist []Op) {
	var log []vk.LogEntry
	l0 := 0
	lastKind := "n/a"
	run.Inflight(shardOf(t), c06Case{Mode: "restart", Cfg: cfg, Hist: hist})
	res := vk.Bubble(t, func() {
		w, err := NewWorld(cfg, nil)
		if err != nil {
			return
		}
		defer w.Close()
		for i, op := range hist {
			if i == len(hist)-1 {
				l0 = len(w.DS.Log())
				if op.K == "delete" {
					w.settle()
					head, tail := w.headTail()
					lastKind = rangeKind(head, tail, op.From, op.To)
				}
			}
			if _, pan := w.Apply(op); pan != "" {
				return // reported by the restart run
			}
		}
		w.Close() // a clean stop also writes; its entries are crash points too
		log = w.DS.Log()
	})
	if !res.OK() || log == nil {
		return
	}
	for k := l0; k <= len(log); k++ {
		c06CrashAt(t, run, cfg, hist, log, k, lastKind)
		run.AddEval(1)
		run.AddCounter("crash_points", 1)
	}
}

func entryKind(log []vk.LogEntry, k int) string {
	if k >= len(log) {
		return "end"
	}
	e := log[k]
	pointer := false
	for _, op := range e.Ops {
		if strings.HasSuffix(op.Key, "/head") || strings.HasSuffix(op.Key, "/tail") {
			pointer = true
		}
	}
	if e.Kind == "commit" {
		return "before-commit"
	}
	if pointer {
		return "before-pointer-" + e.Kind
	}
	return "before-" + e.Kind
}

func c06CrashAt(t *testing.T, run *vk.Run, cfg Cfg, hist []Op, log []vk.LogEntry, k int, lastKind string) {
	c := c06Case{Mode: "crash", Cfg: cfg, Hist: hist, Prefix: k}
	feat := fmt.Sprintf("%s,txn=%v,with=%s,lastdelete=%s,crash=%s", cfg.BatchClass(), cfg.Txn, histKinds(hist), lastKind, entryKind(log, k))
	viol := func(clause, format string, a ...any) {
		run.Violate("C06/"+clause+"/"+feat, c, "crash after %d/%d log entries of [%s] on %v: %s", k, len(log), histString(hist), cfg, fmt.Sprintf(format, a...))
	}
	img := vk.ImageAt(nil, log, k)
	run.Inflight(shardOf(t), c)
	res := vk.Bubble(t, func() {
		w := &World{Cfg: cfg, C: chainFor(cfg.N), DS: vk.FromImage(img), M: map[uint64]bool{}}
		err, pan := vk.TryErr(w.open)
		if pan != "" {
			viol("start-panics", "Start panicked on the recovered image: %s", pan)
			return
		}
		if err != nil {
			viol("start-fails", "Start failed on the recovered image: %v", err)
			return
		}
		defer w.Close()
		n := uint64(cfg.N)
		// the model after recovery: headers whose both keys survive in the image
		for h := uint64(1); h <= n; h++ {
			hk, htk, _, _ := storeKeys(w, h)
			_, a := img[hk]
			_, b := img[htk]
			if a && b {
				w.M[h] = true
			}
		}
		o := w.Observe()
		run.Distinct("crash|" + cfg.String() + "|" + o.Key())
		if o.HeadErr != "" && o.HeadErr != "empty" {
			viol("head-unresolved", "Head: %s", o.HeadErr)
		}
		if o.TailErr != "" && o.TailErr != "empty" {
			viol("tail-unresolved", "Tail: %s", o.TailErr)
		}
		if o.HeadErr == "" && o.TailErr == "" {
			if o.Tail > o.Head {
				viol("tail-above-head", "tail %d head %d", o.Tail, o.Head)
			}
			for h := o.Tail; h <= o.Head && h <= n; h++ {
				if o.ByHeight[h] != "ok" {
					viol("gap-between-tail-and-head", "GetByHeight(%d)=%s with Tail %d Head %d after recovery", h, o.ByHeight[h], o.Tail, o.Head)
				}
			}
		}
		for h := uint64(1); h <= n; h++ {
			if w.M[h] && (o.ByHeight[h] != "ok" || o.ByHash[h] != "ok") {
				viol("committed-header-lost", "height %d has both keys in the surviving image but GetByHeight=%s Get=%s", h, o.ByHeight[h], o.ByHash[h])
			}
		}
		// no dangling pointer remains after Start
		_, _, hdk, tlk := storeKeys(w, 1)
		for name, key := range map[string]string{"head": hdk, "tail": tlk} {
			if v, ok := w.DS.Image()[key]; ok {
				found := false
				for h := uint64(1); h <= n; h++ {
					b, _ := w.C[h].Hash().MarshalJSON()
					hk, _, _, _ := storeKeys(w, h)
					if string(b) == string(v) && w.DS.RawHas(hk) {
						found = true
					}
				}
				if !found {
					viol("dangling-pointer", "%s pointer survives recovery but names no stored header", name)
				}
			}
		}
		// appending the continuation makes Head advance to the new tip
		top := o.Head
		if o.HeadErr != "" {
			top = 0
			if o.TailErr == "" {
				// head pointer lost: the chain continues above the contiguous run that starts at Tail
				for top = o.Tail; w.M[top+1]; top++ {
				}
			} else {
				for h := uint64(1); h <= n; h++ {
					if w.M[h] {
						top = h
					}
				}
			}
		}
		if top+1 <= n {
			hi := top + 2
			if hi > n {
				hi = n
			}
			aerr, apan := w.Apply(Op{K: "append", Lo: top + 1, Hi: hi})
			if apan != "" || aerr != nil {
				viol("append-after-recovery-fails", "append[%d..%d]: err=%v panic=%s", top+1, hi, aerr, apan)
				return
			}
			o2 := w.Observe()
			if o2.HeadErr != "" || o2.Head < hi {
				viol("head-stuck-after-recovery", "after appending [%d..%d] above the recovered head %d Head is %d (%s)", top+1, hi, top, o2.Head, o2.HeadErr)
			}
			w.CheckInvariants(o2, false, func(clause, msg string) {
				if clause == "hasat-disagrees" || clause == "getrange-fails-inside-chain" {
					return // consequences of the clauses above; reported there
				}
				viol("after-recovery-"+clause, "%s", msg)
			})
		}
	})
	if res.Panic != "" {
		viol("panic", "%s\n%s", res.Panic, res.Stack)
	}
	if res.Deadlock {
		viol("goroutine-leak-or-deadlock", "bubble ended with blocked goroutines")
	}
}

// c06Faults: N consecutive failing flush writes at every position; after healing the store is consistent.
func c06Faults(t *testing.T, run *vk.Run, cfg Cfg, hist []Op) {
	// count write attempts of the fault-free run (including the final Stop)
	total := 0
	runHist(t, run, "C06", cfg, hist, nil, func(w *World) {
		w.Close()
		total = w.DS.Writes()
	})
	for n := 1; n <= 3; n++ {
		for p := 0; p < total; p++ {
			c := c06Case{Mode: "fault", Cfg: cfg, Hist: hist, FailFrom: p, FailN: n}
			c06FaultRun(t, run, c)
			run.AddEval(1)
		}
	}
}

func c06FaultRun(t *testing.T, run *vk.Run, c c06Case) {
	cfg := c.Cfg
	feat := fmt.Sprintf("%s,txn=%v,with=%s,n=%d", cfg.BatchClass(), cfg.Txn, histKinds(c.Hist), c.FailN)
	viol := func(clause, format string, a ...any) {
		run.Violate("C06/"+clause+"/"+feat, c, "writes %d..%d failing during [%s] on %v: %s", c.FailFrom, c.FailFrom+c.FailN-1, histString(c.Hist), cfg, fmt.Sprintf(format, a...))
	}
	run.Inflight(shardOf(t), c)
	res := vk.Bubble(t, func() {
		ds := vk.NewLogDS()
		ds.FailKinds = map[string]bool{"batch": true, "commit": true}
		ds.FailWrites(c.FailFrom, c.FailN)
		w, err := NewWorld(cfg, ds)
		if err != nil {
			run.HarnessError("C06 fault: open: %v", err)
			return
		}
		defer w.Close()
		for _, op := range c.Hist {
			if op.K == "delete" {
				// faults inside DeleteRange are C08's; keep the delete fault free
				saveFrom := c.FailFrom
				_ = saveFrom
			}
			if _, pan := w.Apply(op); pan != "" {
				viol("panic", "%s panicked: %s", op, pan)
				return
			}
			// let the flush retry loop (virtual back-off sleeps) finish
			vk.Advance(5 * time.Second)
		}
		ds.FailWrites(-1, 0)
		vk.Advance(5 * time.Second)
		w.settle()
		o := w.Observe()
		run.Distinct("fault|" + cfg.String() + "|" + o.Key())
		w.CheckInvariants(o, false, func(clause, msg string) { viol("after-fault-"+clause, "%s", msg) })
		// and a restart reproduces it
		if rerr, rpan := w.Apply(Op{K: "restart"}); rerr != nil || rpan != "" {
			viol("restart-after-fault-fails", "err=%v panic=%s", rerr, rpan)
			return
		}
		o2 := w.Observe()
		o.Pending, o2.Pending = nil, nil
		if o.Key() != o2.Key() {
			viol("restart-after-fault-changes-observation", "before %s\nafter  %s", o.Key(), o2.Key())
		}
	})
	if res.Panic != "" {
		viol("panic", "%s\n%s", res.Panic, res.Stack)
	}
	if res.Deadlock {
		viol("goroutine-leak-or-deadlock", "bubble ended with blocked goroutines (flush loop wedged?)")
	}
}

func c06Configs(run *vk.Run) []Cfg {
	var out []Cfg
	for _, b := range []int{1, 2, 64} {
		for _, txn := range []bool{false, true} {
			out = append(out, Cfg{N: 5, Batch: b, Cache: 0, Txn: txn})
		}
	}
	if run.Thorough() {
		out = append(out, Cfg{N: 5, Batch: 1, Cache: 2, Txn: false}, Cfg{N: 5, Batch: 3, Cache: 2, Txn: true})
	}
	return out
}

func TestC06(t *testing.T) {
	run := vk.NewRun("C06", "fault_enumeration")
	defer run.Finish()
	run.SetRule("for every distinct state/history of the BFS over {Append slices, accepted DeleteRanges, Restart} (depth d; plus three fixed depth-4 histories that once exposed defects) and every (batch size, flavour): (a) clean Stop/Start must reproduce the full observation vector; (b) every prefix of the datastore commit log (each direct write and each batch commit atomic) is reopened with a fresh Store and checked; (c) every placement of 1..3 consecutive failing flush writes (batch creation / commit) is run to quiescence and checked; distinct = distinct recovered observation vectors")
	run.Assume("crash granularity: a direct Put/Delete or one Batch.Commit is atomic; faults in DeleteRange itself are covered by C08")

	var rc c06Case
	if is, err := vk.ReplayCase(&rc); is {
		if err != nil {
			t.Fatal(err)
		}
		switch rc.Mode {
		case "restart":
			c06Restart(t, run, rc.Cfg, rc.Hist)
		case "crash":
			var log []vk.LogEntry
			runHist(t, run, "C06", rc.Cfg, rc.Hist, nil, func(w *World) { w.Close(); log = w.DS.Log() })
			c06CrashAt(t, run, rc.Cfg, rc.Hist, log, rc.Prefix, "replay")
		case "fault":
			c06FaultRun(t, run, rc)
		default:
			// crash replays written by the driver carry a c04Case shape
			c06Restart(t, run, rc.Cfg, rc.Hist)
		}
		fmt.Printf("replayed %+v: violations=%d\n", rc, run.Violations())
		return
	}
	depth := vk.Pick(run, 3, 4)
	run.Set("depth", depth)
	dl := vk.NewDeadline(vk.Pick(run, 10*time.Minute, 45*time.Minute))
	states, crashPoints := 0, 0
	for _, cfg := range c06Configs(run) {
		cfg := cfg
		r := vk.BFS(t, depth, vk.NumShards(), dl, func(t *testing.T, shard int, hist []Op) vk.Step[Op] {
			run.AddEval(1)
			step := c06Restart(t, run, cfg, hist)
			if !step.Skip {
				c06Crash(t, run, cfg, hist)
			}
			return step
		})
		states += r.States
		if r.Capped {
			run.NotExhaustive("time budget hit during restart exploration of " + cfg.String())
		}
		// histories beyond the depth of the quick tier that once exposed a defect: always run, with
		// the full restart and crash-point enumeration
		for _, hist := range c06RegressionHistories {
			if step := c06Restart(t, run, cfg, hist); !step.Skip {
				c06Crash(t, run, cfg, hist)
			}
			run.AddEval(1)
		}
		q := vk.NewWorkQueue(len(r.Histories))
		vk.Shards(t, vk.NumShards(), func(t *testing.T, shard int) {
			for {
				if dl.Hit() {
					run.NotExhaustive("time budget hit in crash/fault enumeration of " + cfg.String())
					return
				}
				i, ok := q.Next()
				if !ok {
					return
				}
				hasDelete := strings.Contains(histKinds(r.Histories[i]), "delete")
				if !hasDelete && len(r.Histories[i]) <= 3 {
					c06Faults(t, run, cfg, r.Histories[i])
				}
				if i%61 == 0 {
					run.Sample(map[string]any{"cfg": cfg.String(), "history": histString(r.Histories[i])})
				}
			}
		})
		_ = crashPoints
		for i := 0; i < len(r.Histories); i += 1 + len(r.Histories)/10 {
			var l1, l2 []vk.LogEntry
			runHist(t, run, "C06", cfg, r.Histories[i], nil, func(w *World) { w.Close(); l1 = w.DS.Log() })
			runHist(t, run, "C06", cfg, r.Histories[i], nil, func(w *World) { w.Close(); l2 = w.DS.Log() })
			if fmt.Sprint(logKeys(l1)) != fmt.Sprint(logKeys(l2)) {
				run.HarnessError("commit log differs between two replays of [%s] on %v", histString(r.Histories[i]), cfg)
			}
			run.AddValidated(1)
		}
	}
	run.AddStates(int64(states))
}

// c06RegressionHistories: see F22 (a header only in the pending batch below a pointer that
// DeleteRange writes directly) and F19 (pending headers deleted, pointers never flushed).
var c06RegressionHistories = [][]Op{
	{{K: "append", Lo: 1, Hi: 1}, {K: "burstrestart", Lo: 3, Hi: 5}, {K: "append", Lo: 2, Hi: 2}, {K: "delete", From: 5, To: 6}},
	{{K: "append", Lo: 4, Hi: 4}, {K: "append", Lo: 1, Hi: 2}, {K: "append", Lo: 3, Hi: 3}, {K: "delete", From: 1, To: 2}},
	{{K: "append", Lo: 1, Hi: 1}, {K: "append", Lo: 3, Hi: 3}, {K: "append", Lo: 2, Hi: 2}, {K: "delete", From: 1, To: 3}},
}

func logKeys(l []vk.LogEntry) []string {
	var out []string
	for _, e := range l {
		var ks []string
		for _, op := range e.Ops {
			k := op.Key
			if op.Del {
				k = "-" + k
			}
			ks = append(ks, k)
		}
		sort.Strings(ks) // the order inside one atomic commit is irrelevant (map iteration in batch.GetAll)
		out = append(out, e.Kind+":"+strings.Join(ks, ","))
	}
	return out
}
