package storex

import (
	"context"
	"errors"
	"fmt"
	"sort"
	"strings"
	"time"

	"github.com/celestiaorg/go-header"
	"github.com/celestiaorg/go-header/store"

	"verif/vk"
)

// Cfg is one store configuration.
type Cfg struct {
	N     int  `json:"n"`     // chain length
	Batch int  `json:"batch"` // WriteBatchSize
	Cache int  `json:"cache"` // StoreCacheSize and IndexCacheSize (0 = defaults)
	Txn   bool `json:"txn"`   // context-aware datastore with batches + snapshot read transactions
}

func (c Cfg) String() string { return fmt.Sprintf("N%d/b%d/c%d/txn=%v", c.N, c.Batch, c.Cache, c.Txn) }

// BatchClass names the flush regime the batch size forces for small chains.
func (c Cfg) BatchClass() string {
	switch {
	case c.Batch == 1:
		return "flush-each"
	case c.Batch >= 64:
		return "all-pending"
	}
	return "mixed"
}

// Op is one operation of the store alphabet.
type Op struct {
	K    string `json:"k"` // append | gapappend | delete | restart | readall | sync
	Lo   uint64 `json:"lo,omitempty"`
	Hi   uint64 `json:"hi,omitempty"`
	From uint64 `json:"from,omitempty"`
	To   uint64 `json:"to,omitempty"`
	// NS: do not wait for quiescence before the operation (delete only)
	NS bool `json:"no_settle,omitempty"`
}

func (o Op) String() string {
	switch o.K {
	case "append":
		return fmt.Sprintf("append[%d..%d]", o.Lo, o.Hi)
	case "gapappend":
		return fmt.Sprintf("append{%d,%d}", o.Lo, o.Hi)
	case "revappend":
		return fmt.Sprintf("append[%d..%d reversed]", o.Lo, o.Hi)
	case "burstrestart":
		return fmt.Sprintf("append-each[%d..%d]+stop+start", o.Lo, o.Hi)
	case "delete":
		return fmt.Sprintf("delete[%d,%d)", o.From, o.To)
	case "appenddel":
		return fmt.Sprintf("append[%d..%d]+delete[%d,%d)-at-once", o.Lo, o.Hi, o.From, o.To)
	case "restartappend":
		return fmt.Sprintf("stop+start+append[%d..%d]", o.Lo, o.Hi)
	}
	return o.K
}

func histString(h []Op) string {
	s := make([]string, len(h))
	for i, o := range h {
		s[i] = o.String()
	}
	return strings.Join(s, " ")
}

// World is a real store.Store over a LogDS plus the reference model (set of live heights).
type World struct {
	Cfg   Cfg
	C     vk.Chain
	DS    *vk.LogDS
	St    *store.Store[*vk.H]
	M     map[uint64]bool // reference model: heights appended and not deleted
	Stopd bool
	// ExpectNonEmpty: an append succeeded after the last whole-chain deletion.
	ExpectNonEmpty bool

	// handler instrumentation (C14)
	Handlers []*handlerRec
}

func storeOpts(c Cfg) []store.Option {
	opts := []store.Option{store.WithWriteBatchSize(c.Batch)}
	if c.Cache > 0 {
		opts = append(opts, store.WithStoreCacheSize(c.Cache), store.WithIndexCacheSize(c.Cache))
	}
	return opts
}

func chainFor(n int) vk.Chain {
	return vk.GenChain(vk.ChainSpec{N: n, Step: time.Second})
}

// NewWorld opens a fresh started store over ds (nil = empty datastore).
func NewWorld(cfg Cfg, ds *vk.LogDS) (*World, error) {
	if ds == nil {
		ds = vk.NewLogDS()
	}
	w := &World{Cfg: cfg, C: chainFor(cfg.N), DS: ds, M: map[uint64]bool{}}
	if err := w.open(); err != nil {
		return w, err
	}
	return w, nil
}

func (w *World) open() error {
	st, err := store.NewStore[*vk.H](w.DS.Wrap(w.Cfg.Txn), storeOpts(w.Cfg)...)
	if err != nil {
		return fmt.Errorf("NewStore: %w", err)
	}
	w.St = st
	for _, h := range w.Handlers {
		h.attach(w)
	}
	ctx, cancel := vk.Horizon(time.Minute)
	defer cancel()
	if err := st.Start(ctx); err != nil {
		return fmt.Errorf("Start: %w", err)
	}
	w.Stopd = false
	return nil
}

// Close stops the store (so the bubble can end without leaked goroutines).
func (w *World) Close() error {
	if w.Stopd || w.St == nil {
		return nil
	}
	ctx, cancel := vk.Horizon(time.Minute)
	defer cancel()
	w.Stopd = true
	return w.St.Stop(ctx)
}

// settle lets the flush loop drain and reach quiescence.
func (w *World) settle() {
	vk.Settle()
	if !w.Stopd {
		ctx, cancel := vk.Horizon(time.Minute)
		_ = w.St.Sync(ctx)
		cancel()
		vk.Settle()
	}
}

// Pointers observed through the public API (0 = unset).
func (w *World) headTail() (head, tail uint64) {
	ctx := context.Background()
	if h, err := w.St.Head(ctx); err == nil && h != nil {
		head = h.Ht
	}
	if t, err := w.St.Tail(ctx); err == nil && t != nil {
		tail = t.Ht
	}
	return
}

// refAccepts is the reference for DeleteRange acceptance given the observed pointers.
func refAccepts(head, tail, from, to uint64) bool {
	if head == 0 || tail == 0 {
		return false
	}
	if from >= to || from > head || to <= tail {
		return false
	}
	prefix := from == tail && to <= head+1
	suffix := to == head+1 && from >= tail
	return prefix || suffix
}

// Apply executes one op against the real store and updates the model.
// It returns the op's error and a recovered panic (if any).
func (w *World) Apply(op Op) (err error, pan string) {
	ctx, cancel := vk.Horizon(time.Minute)
	defer cancel()
	switch op.K {
	case "append":
		hs := w.C.Slice(op.Lo, op.Hi)
		err, pan = vk.TryErr(func() error { return w.St.Append(ctx, hs...) })
		if err == nil && pan == "" {
			for h := op.Lo; h <= op.Hi; h++ {
				w.M[h] = true
			}
			w.ExpectNonEmpty = true
		}
	case "gapappend":
		hs := []*vk.H{w.C[op.Lo], w.C[op.Hi]}
		err, pan = vk.TryErr(func() error { return w.St.Append(ctx, hs...) })
		if err == nil && pan == "" {
			w.M[op.Lo], w.M[op.Hi] = true, true
			w.ExpectNonEmpty = true
		}
	case "revappend": // one Append call with the slice in descending order
		hs := w.C.Slice(op.Lo, op.Hi)
		for i, j := 0, len(hs)-1; i < j; i, j = i+1, j-1 {
			hs[i], hs[j] = hs[j], hs[i]
		}
		err, pan = vk.TryErr(func() error { return w.St.Append(ctx, hs...) })
		if err == nil && pan == "" {
			for h := op.Lo; h <= op.Hi; h++ {
				w.M[h] = true
			}
			w.ExpectNonEmpty = true
		}
	case "burstrestart": // one Append per header, then Stop at once (queue still full), then reopen
		err, pan = vk.TryErr(func() error {
			for h := op.Lo; h <= op.Hi; h++ {
				if e := w.St.Append(ctx, w.C[h]); e != nil {
					return e
				}
				w.M[h] = true
				w.ExpectNonEmpty = true
			}
			if e := w.Close(); e != nil {
				return fmt.Errorf("Stop: %w", e)
			}
			return w.open()
		})
	case "appenddel":
		// Append directly followed by DeleteRange on a slow disk (every datastore write takes 1ms of
		// virtual time): the flush of the appended headers is still in flight when DeleteRange starts
		w.settle()
		_, tail := w.headTail()
		hs := w.C.Slice(op.Lo, op.Hi)
		w.DS.OnOp = func(kind string) {
			if kind == "commit" || kind == "put" || kind == "delete" {
				time.Sleep(time.Millisecond)
			}
		}
		appended := false
		err, pan = vk.TryErr(func() error {
			if e := w.St.Append(ctx, hs...); e != nil {
				return fmt.Errorf("Append: %w", e)
			}
			appended = true
			return w.St.DeleteRange(ctx, op.From, op.To)
		})
		vk.Settle()
		w.DS.OnOp = nil
		if appended {
			for h := op.Lo; h <= op.Hi; h++ {
				w.M[h] = true
			}
			w.ExpectNonEmpty = true
		}
		if err == nil && pan == "" {
			if op.From == tail && op.To == op.Hi+1 {
				w.ExpectNonEmpty = false
			}
			for h := op.From; h < op.To; h++ {
				delete(w.M, h)
			}
		}
	case "delete":
		if !op.NS {
			w.settle()
		}
		head, tail := w.headTail()
		err, pan = vk.TryErr(func() error { return w.St.DeleteRange(ctx, op.From, op.To) })
		if err == nil && pan == "" {
			if op.From == tail && op.To == head+1 {
				w.ExpectNonEmpty = false
			}
			for h := op.From; h < op.To && h <= uint64(w.Cfg.N)+2; h++ {
				delete(w.M, h)
			}
		}
	case "restartappend": // clean restart, then the header right above Head (fills a gap if there is one)
		err, pan = vk.TryErr(func() error {
			if e := w.Close(); e != nil {
				return fmt.Errorf("Stop: %w", e)
			}
			if e := w.open(); e != nil {
				return e
			}
			if e := w.St.Append(ctx, w.C.Slice(op.Lo, op.Hi)...); e != nil {
				return fmt.Errorf("Append: %w", e)
			}
			for h := op.Lo; h <= op.Hi; h++ {
				w.M[h] = true
			}
			w.ExpectNonEmpty = true
			return nil
		})
	case "restart":
		err, pan = vk.TryErr(func() error {
			if e := w.Close(); e != nil {
				return fmt.Errorf("Stop: %w", e)
			}
			return w.open()
		})
	case "readall":
		for h := uint64(1); h <= uint64(w.Cfg.N); h++ {
			if w.M[h] {
				rctx, rc := vk.Horizon(time.Second)
				_, _ = w.St.GetByHeight(rctx, h)
				rc()
			}
		}
	case "sync":
		err, pan = vk.TryErr(func() error { return w.St.Sync(ctx) })
	default:
		panic("unknown op " + op.K)
	}
	w.settle()
	return
}

// StateKey is the canonical internal state (taken BEFORE any observing read).
func (w *World) StateKey() string {
	head, tail := w.St.VerifPointers()
	var b strings.Builder
	fmt.Fprintf(&b, "ds=%s|pend=%v|cache=%v|idx=%v|head=%d|tail=%d|height=%d|wait=%v|model=%v",
		vk.ImageHash(w.DS.Image()), w.St.VerifPendingHeights(), sortedStrings(w.St.VerifCacheKeys(), w.Cfg.Cache == 0),
		sortedU64(w.St.VerifIndexCacheKeys(), w.Cfg.Cache == 0), head, tail, w.St.Height(), len(w.St.VerifWaiters()), w.modelHeights())
	return b.String()
}

func sortedStrings(s []string, doSort bool) []string {
	out := append([]string(nil), s...)
	for i := range out {
		if len(out[i]) > 8 {
			out[i] = out[i][:8]
		}
	}
	if doSort {
		sort.Strings(out)
	}
	return out
}

func sortedU64(s []uint64, doSort bool) []uint64 {
	out := append([]uint64(nil), s...)
	if doSort {
		sort.Slice(out, func(i, j int) bool { return out[i] < out[j] })
	}
	return out
}

func (w *World) modelHeights() []uint64 {
	out := make([]uint64, 0, len(w.M))
	for h := range w.M {
		out = append(out, h)
	}
	sort.Slice(out, func(i, j int) bool { return out[i] < out[j] })
	return out
}

// Obs is the public-API observation vector.
type Obs struct {
	Head, Tail       uint64
	HeadErr, TailErr string
	Height           uint64
	ByHeight         []string // index h = 0..N+1
	ByHash           []string // index h = 1..N (0 unused)
	Has              []string
	HasAt            []bool
	Ranges           map[string]string
	Pending          []uint64
}

func (o Obs) Key() string { return fmt.Sprintf("%+v", o) }

func classifyErr(err error) string {
	switch {
	case err == nil:
		return "ok"
	case errors.Is(err, context.DeadlineExceeded):
		return "timeout"
	case errors.Is(err, header.ErrNotFound):
		return "notfound"
	case errors.Is(err, header.ErrEmptyStore):
		return "empty"
	}
	return "err:" + firstWords(err.Error())
}

func firstWords(s string) string {
	if len(s) > 48 {
		s = s[:48]
	}
	return s
}

const readWait = time.Second

// Observe reads everything through the public API.
func (w *World) Observe() Obs {
	n := uint64(w.Cfg.N)
	o := Obs{Ranges: map[string]string{}}
	bg := context.Background()
	if h, err := w.St.Head(bg); err != nil {
		o.HeadErr = classifyErr(err)
	} else if h == nil {
		o.HeadErr = "zero-with-nil-error"
	} else {
		o.Head = h.Ht
		if !sameHeader(h, w.C.At(h.Ht)) {
			o.HeadErr = "foreign-header"
		}
	}
	if t, err := w.St.Tail(bg); err != nil {
		o.TailErr = classifyErr(err)
	} else if t == nil {
		o.TailErr = "zero-with-nil-error"
	} else {
		o.Tail = t.Ht
		if !sameHeader(t, w.C.At(t.Ht)) {
			o.TailErr = "foreign-header"
		}
	}
	o.Height = w.St.Height()
	o.Pending = w.St.VerifPendingHeights()
	o.ByHeight = make([]string, n+2)
	o.ByHash = make([]string, n+1)
	o.Has = make([]string, n+1)
	o.HasAt = make([]bool, n+2)
	for h := uint64(0); h <= n+1; h++ {
		ctx, cancel := vk.Horizon(readWait)
		got, err := w.St.GetByHeight(ctx, h)
		cancel()
		o.ByHeight[h] = classifyGet(got, err, w.C.At(h))
		o.HasAt[h] = w.St.HasAt(bg, h)
	}
	for h := uint64(1); h <= n; h++ {
		ctx, cancel := vk.Horizon(readWait)
		got, err := w.St.Get(ctx, w.C[h].Hash())
		o.ByHash[h] = classifyGet(got, err, w.C[h])
		ok, herr := w.St.Has(ctx, w.C[h].Hash())
		cancel()
		switch {
		case herr != nil:
			o.Has[h] = classifyErr(herr)
		case ok:
			o.Has[h] = "ok"
		default:
			o.Has[h] = "no"
		}
	}
	for a := uint64(0); a <= n+1; a++ {
		for b := a; b <= n+2; b++ {
			ctx, cancel := vk.Horizon(readWait)
			hs, err := w.St.GetRange(ctx, a, b)
			cancel()
			o.Ranges[fmt.Sprintf("%d-%d", a, b)] = w.classifyRange(hs, err, a, b)
			if a >= 1 && a <= n {
				ctx, cancel = vk.Horizon(readWait)
				hs2, err2 := w.St.GetRangeByHeight(ctx, w.C[a], b)
				cancel()
				o.Ranges[fmt.Sprintf("from%d-%d", a, b)] = w.classifyRange(hs2, err2, a+1, b)
			}
		}
	}
	return o
}

func sameHeader(a, b *vk.H) bool {
	if a == nil || b == nil {
		return a == b
	}
	return string(a.Hash()) == string(b.Hash())
}

func classifyGet(got *vk.H, err error, want *vk.H) string {
	if err != nil {
		return classifyErr(err)
	}
	if got == nil {
		return "zero-with-nil-error"
	}
	if want == nil || !sameHeader(got, want) {
		return fmt.Sprintf("wrong:h%d", got.Ht)
	}
	return "ok"
}

func (w *World) classifyRange(hs []*vk.H, err error, a, b uint64) string {
	if err != nil {
		return "E" // any error
	}
	if a >= b {
		return fmt.Sprintf("wrong:nil-error-for-empty-range(len %d)", len(hs))
	}
	if uint64(len(hs)) != b-a {
		return fmt.Sprintf("wrong:len%d", len(hs))
	}
	for i, h := range hs {
		if h == nil || !sameHeader(h, w.C.At(a+uint64(i))) {
			return fmt.Sprintf("wrong:%v", vk.Heights(hs))
		}
	}
	return "ok"
}

// CheckInvariants applies the C04 oracle to an observation. viol(clause, msg).
func (w *World) CheckInvariants(o Obs, checkDead bool, viol func(clause, msg string)) {
	n := uint64(w.Cfg.N)
	empty := o.HeadErr == "empty" && o.TailErr == "empty"
	if (o.HeadErr == "empty") != (o.TailErr == "empty") {
		viol("head-tail-emptiness-disagree", fmt.Sprintf("Head err=%q Tail err=%q", o.HeadErr, o.TailErr))
	}
	if o.HeadErr != "" && o.HeadErr != "empty" {
		viol("head-unreadable", o.HeadErr)
	}
	if o.TailErr != "" && o.TailErr != "empty" {
		viol("tail-unreadable", o.TailErr)
	}
	live := 0
	for h := uint64(1); h <= n; h++ {
		if w.M[h] {
			live++
		}
	}
	if !empty {
		if o.Tail > o.Head {
			viol("tail-above-head", fmt.Sprintf("tail %d head %d", o.Tail, o.Head))
		}
		if o.Height != o.Head {
			viol("height-ne-head", fmt.Sprintf("Height()=%d Head().Height()=%d", o.Height, o.Head))
		}
		for h := o.Tail; h <= o.Head && h <= n+1; h++ {
			if !w.M[h] {
				viol("range-contains-deleted-or-never-appended", fmt.Sprintf("height %d in [Tail %d, Head %d] is not live in the model", h, o.Tail, o.Head))
			}
			if o.ByHeight[h] != "ok" {
				viol("gap-in-chain", fmt.Sprintf("GetByHeight(%d)=%s inside [Tail %d, Head %d]", h, o.ByHeight[h], o.Tail, o.Head))
			}
		}
		if o.Head+1 <= n && w.M[o.Head+1] {
			viol("head-not-top-of-run", fmt.Sprintf("head %d but %d is stored", o.Head, o.Head+1))
		}
	} else {
		if o.Height != 0 {
			viol("height-ne-head", fmt.Sprintf("empty store but Height()=%d", o.Height))
		}
		if live > 0 && w.ExpectNonEmpty {
			viol("nonempty-model-but-empty-store", fmt.Sprintf("live heights %v but Head/Tail report empty store", w.modelHeights()))
		}
	}
	for h := uint64(0); h <= n+1; h++ {
		wantAt := !empty && h != 0 && h >= o.Tail && h <= o.Head
		if o.HasAt[h] != wantAt {
			viol("hasat-disagrees", fmt.Sprintf("HasAt(%d)=%v with Tail %d Head %d", h, o.HasAt[h], o.Tail, o.Head))
		}
		r := o.ByHeight[h]
		if strings.HasPrefix(r, "wrong") || r == "zero-with-nil-error" {
			viol("getbyheight-wrong-header", fmt.Sprintf("GetByHeight(%d)=%s", h, r))
		}
		if h >= 1 && h <= n {
			if w.M[h] && r != "ok" {
				viol("live-header-unreadable-by-height", fmt.Sprintf("GetByHeight(%d)=%s but it was appended and not deleted (pending=%v)", h, r, o.Pending))
			}
			if checkDead && !w.M[h] && r == "ok" {
				viol("dead-header-readable-by-height", fmt.Sprintf("GetByHeight(%d)=ok but it is not live in the model", h))
			}
			if !w.M[h] && h <= o.Height && r == "timeout" {
				viol("missing-below-height-blocks", fmt.Sprintf("GetByHeight(%d) blocked although Height()=%d", h, o.Height))
			}
			g := o.ByHash[h]
			if strings.HasPrefix(g, "wrong") || g == "zero-with-nil-error" {
				viol("get-wrong-header", fmt.Sprintf("Get(hash of %d)=%s", h, g))
			}
			if w.M[h] && g != "ok" {
				viol("live-header-unreadable-by-hash", fmt.Sprintf("Get(hash of %d)=%s", h, g))
			}
			if checkDead && !w.M[h] && g == "ok" {
				viol("dead-header-readable-by-hash", fmt.Sprintf("Get(hash of %d)=ok but it is not live in the model", h))
			}
			if w.M[h] && o.Has[h] != "ok" {
				viol("has-disagrees", fmt.Sprintf("Has(hash of %d)=%s but live", h, o.Has[h]))
			}
			if checkDead && !w.M[h] && o.Has[h] == "ok" {
				viol("has-disagrees", fmt.Sprintf("Has(hash of %d)=ok but not live", h))
			}
		}
	}
	for k, v := range o.Ranges {
		if strings.HasPrefix(v, "wrong") {
			viol("getrange-wrong-content", fmt.Sprintf("GetRange %s = %s", k, v))
		}
		var a, b uint64
		if strings.HasPrefix(k, "from") {
			fmt.Sscanf(k, "from%d-%d", &a, &b)
			a++
		} else {
			fmt.Sscanf(k, "%d-%d", &a, &b)
		}
		if !empty && a < b && a >= o.Tail && b-1 <= o.Head && a >= 1 && v != "ok" {
			viol("getrange-fails-inside-chain", fmt.Sprintf("GetRange %s = %s with Tail %d Head %d", k, v, o.Tail, o.Head))
		}
	}
}

func storeVerifKeys(h *vk.H) (hashK, heightK, headK, tailK string) {
	return store.VerifKeys[*vk.H](h)
}
