package storex

import (
	"fmt"
	"strings"
	"sync"
	"testing"
	"time"

	"github.com/celestiaorg/go-header/store"

	"verif/vk"
)

type c14Case struct {
	Cfg      Cfg    `json:"cfg"`
	Hist     []Op   `json:"hist"`
	From     uint64 `json:"from"`
	To       uint64 `json:"to"`
	Handlers int    `json:"handlers"`
	// FailHandler/FailAt: handler index and its 1-based invocation number that fails (FailAt 0 = none)
	FailHandler int  `json:"fail_handler"`
	FailAt      int  `json:"fail_at"`
	Panic       bool `json:"panic"`
	WrapNF      bool `json:"error_wraps_datastore_notfound,omitempty"`
	Parallel    bool `json:"parallel"`
	// PersistFrom: handler 0 fails for every height >= PersistFrom during the first call (0 = off)
	PersistFrom uint64 `json:"persist_from,omitempty"`
}

var handlerMu sync.Mutex // handler records are appended under this lock in the parallel path

func c14Run(t *testing.T, run *vk.Run, c c14Case, pre *preState) {
	n := uint64(c.Cfg.N)
	kind := rangeKind(pre.head, pre.tail, c.From, c.To)
	where := "flushed"
	for _, p := range pre.pending {
		if p >= c.From && p < c.To {
			where = "pending"
		}
	}
	fault := "none"
	if c.PersistFrom > 0 {
		fault = "persistent-error"
	}
	if c.FailAt > 0 {
		fault = fmt.Sprintf("error@h%d", c.FailHandler)
		if c.Panic {
			fault = fmt.Sprintf("panic@h%d", c.FailHandler)
		}
		if c.WrapNF {
			fault = fmt.Sprintf("error-wrapping-notfound@h%d", c.FailHandler)
		}
	}
	feat := fmt.Sprintf("%s,%s,%s,txn=%v,handlers=%d,fault=%s,parallel=%v", kind, where, c.Cfg.BatchClass(), c.Cfg.Txn, c.Handlers, fault, c.Parallel)
	viol := func(clause, format string, a ...any) {
		run.Violate("C14/"+clause+"/"+feat, c, "DeleteRange [%d,%d) after [%s] on %v (head %d tail %d pending %v): %s",
			c.From, c.To, histString(c.Hist), c.Cfg, pre.head, pre.tail, pre.pending, fmt.Sprintf(format, a...))
	}
	hs := make([]*handlerRec, c.Handlers)
	for i := range hs {
		hs[i] = &handlerRec{Read: true, Locked: c.Parallel}
	}
	runHist(t, run, "C14", c.Cfg, c.Hist, func(w *World) { addHandlers(w, hs...) }, func(w *World) {
		w.settle()
		for i, h := range hs {
			h.Calls = nil
			if c.FailAt > 0 && i == c.FailHandler {
				// arm the fault only now: invocation numbers count from this DeleteRange call
				h.FailAt, h.Panic, h.WrapNF = c.FailAt, c.Panic, c.WrapNF
			}
			if c.PersistFrom > 0 && i == 0 {
				h.FailFromHeight = c.PersistFrom
			}
		}
		err, pan := w.Apply(Op{K: "delete", From: c.From, To: c.To})
		if pan != "" {
			viol("panic-escaped", "DeleteRange panicked: %s", pan)
			return
		}
		o := w.Observe()
		log := w.DS.Log()
		// which heights were removed by this call
		removed := map[uint64]bool{}
		for h := c.From; h < c.To && h <= n; h++ {
			if h >= 1 && pre.model[h] && o.ByHeight[h] != "ok" && o.ByHash[h] != "ok" {
				removed[h] = true
			}
		}
		var failedAt uint64
		for _, h := range hs {
			for _, call := range h.Calls {
				if call.Failed {
					failedAt = call.Height
				}
			}
		}
		run.Distinct(fmt.Sprintf("%s|removed=%d|err=%v", feat, len(removed), err != nil))
		if c.PersistFrom > 0 {
			c14Persistent(w, c, pre, hs, o, err, removed, viol)
			return
		}
		if c.FailAt == 0 || failedAt == 0 {
			if err != nil {
				viol("valid-delete-failed", "no handler failed but DeleteRange returned %v", err)
				return
			}
			for h := c.From; h < c.To && h <= n; h++ {
				if h >= 1 && pre.model[h] && !removed[h] {
					viol("not-removed", "DeleteRange returned nil but height %d is still readable (by height %s, by hash %s)", h, o.ByHeight[h], o.ByHash[h])
				}
			}
		} else {
			if err == nil {
				viol("handler-error-swallowed", "handler %d failed at height %d but DeleteRange returned nil", c.FailHandler, failedAt)
			}
			if o.ByHeight[failedAt] != "ok" || o.ByHash[failedAt] != "ok" {
				viol("removed-despite-handler-failure", "handler failed for height %d but it is no longer readable (by height %s, by hash %s)", failedAt, o.ByHeight[failedAt], o.ByHash[failedAt])
			}
		}
		// per removed height: each handler exactly once, header readable at call time, no key delete before
		for h := range removed {
			hk, htk, _, _ := storeKeys(w, h)
			lastLog := -1
			for i, hr := range hs {
				cnt := 0
				for _, call := range hr.Calls {
					if call.Height != h {
						continue
					}
					cnt++
					if call.Readable != "ok" {
						viol("unreadable-in-handler", "handler %d called for height %d but GetByHeight there returned %s", i, h, call.Readable)
					}
					if call.LogLen > lastLog {
						lastLog = call.LogLen
					}
				}
				if cnt != 1 {
					viol("handler-call-count", "height %d was removed but handler %d was called %d times for it", h, i, cnt)
				}
			}
			for i := 0; i < lastLog && i < len(log); i++ {
				for _, op := range log[i].Ops {
					if op.Del && (op.Key == hk || op.Key == htk) && i >= pre.logLen {
						viol("deleted-before-handlers", "datastore delete of %s (log entry %d) happened before the last handler call for height %d (log length %d then)", op.Key, i, h, lastLog)
					}
				}
			}
		}
		// handlers must not be called for heights outside the range
		for i, hr := range hs {
			for _, call := range hr.Calls {
				if call.Height < c.From || call.Height >= c.To {
					viol("handler-outside-range", "handler %d called for height %d outside [%d,%d)", i, call.Height, c.From, c.To)
				}
			}
		}
		if c.FailAt > 0 && failedAt != 0 && (kind == "prefix" || kind == "whole") {
			// retry of the tail-side deletion: handlers run again for the failed height, then it is removed
			before := make([]int, len(hs))
			for i, hr := range hs {
				before[i] = len(hr.Calls)
			}
			if o.TailErr != "" {
				viol("retry-impossible", "after the failed delete Tail() fails with %s", o.TailErr)
				return
			}
			if o.Tail > failedAt {
				viol("tail-moved-past-failed-height", "handler failed at %d but Tail is now %d", failedAt, o.Tail)
				return
			}
			rerr, rpan := w.Apply(Op{K: "delete", From: o.Tail, To: c.To})
			if rpan != "" || rerr != nil {
				viol("retry-fails", "retry DeleteRange(%d,%d): err=%v panic=%s", o.Tail, c.To, rerr, rpan)
				return
			}
			o2 := w.Observe()
			for h := c.From; h < c.To && h <= n; h++ {
				if h >= 1 && (o2.ByHeight[h] == "ok" || o2.ByHash[h] == "ok") {
					viol("retry-incomplete", "height %d still readable after the retried deletion", h)
				}
			}
			for i, hr := range hs {
				again := 0
				for _, call := range hr.Calls[before[i]:] {
					if call.Height == failedAt {
						again++
					}
				}
				if again != 1 {
					viol("retry-handler-call-count", "retry called handler %d %d times for the previously failed height %d", i, again, failedAt)
				}
			}
		}
	})
}

// c14Persistent: handler 0 rejected every height >= PersistFrom; nothing of that region may be
// removed, the error is surfaced, and after the handler recovers a tail-side retry from the
// reported Tail re-invokes the handlers and completes.
func c14Persistent(w *World, c c14Case, pre *preState, hs []*handlerRec, o Obs, err error, removed map[uint64]bool, viol func(clause, format string, a ...any)) {
	n := uint64(c.Cfg.N)
	kind := rangeKind(pre.head, pre.tail, c.From, c.To)
	if err == nil {
		viol("handler-error-swallowed", "handler rejected every height >= %d but DeleteRange returned nil", c.PersistFrom)
	}
	for h := range removed {
		if h >= c.PersistFrom {
			viol("removed-despite-handler-failure", "handler rejected height %d but it is no longer readable", h)
		}
		okCalls := 0
		for _, call := range hs[0].Calls {
			if call.Height == h && !call.Failed {
				okCalls++
			}
		}
		if okCalls != 1 {
			viol("handler-call-count", "height %d was removed but handler 0 returned nil for it %d times", h, okCalls)
		}
	}
	if kind != "prefix" && kind != "whole" {
		return
	}
	if o.TailErr != "" {
		viol("retry-impossible", "after the failed delete Tail() fails with %s", o.TailErr)
		return
	}
	if o.Tail > c.PersistFrom {
		viol("tail-moved-past-failed-height", "handler rejected heights >= %d but Tail is now %d", c.PersistFrom, o.Tail)
		return
	}
	hs[0].FailFromHeight = 0
	before := len(hs[0].Calls)
	rerr, rpan := w.Apply(Op{K: "delete", From: o.Tail, To: c.To})
	if rpan != "" || rerr != nil {
		viol("retry-fails", "retry DeleteRange(%d,%d) after the handler recovered: err=%v panic=%s", o.Tail, c.To, rerr, rpan)
		return
	}
	o2 := w.Observe()
	for h := c.From; h < c.To && h <= n; h++ {
		if h >= 1 && (o2.ByHeight[h] == "ok" || o2.ByHash[h] == "ok") {
			viol("retry-incomplete", "height %d still readable after the retried deletion (Tail was %d, rejected from %d)", h, o.Tail, c.PersistFrom)
		}
	}
	for h := c.PersistFrom; h < c.To && h <= n; h++ {
		if !pre.model[h] {
			continue
		}
		again := 0
		for _, call := range hs[0].Calls[before:] {
			if call.Height == h {
				again++
			}
		}
		if again != 1 {
			viol("retry-handler-call-count", "retry called handler 0 %d times for the previously rejected height %d", again, h)
		}
	}
}

func TestC14(t *testing.T) {
	run := vk.NewRun("C14", "fault_enumeration")
	defer run.Finish()
	run.SetRule("for every distinct store state (BFS depth d over the store alphabet), every accepted (from,to) from the relative-position alphabet, 1 and 2 registered handlers that read the header via GetByHeight, and every (handler i, invocation k, error|panic|error wrapping datastore.ErrNotFound) fault position plus no fault; sequential and (threshold hook) parallel deletion path; distinct = (range kind, pending/flushed, flush regime, flavour, handlers, fault, removed count, outcome)")
	run.Assume("handler call order is only constrained through the datastore commit log (log length at call time)")

	var rc c14Case
	if is, err := vk.ReplayCase(&rc); is {
		if err != nil {
			t.Fatal(err)
		}
		if rc.Parallel {
			defer store.VerifSetDeleteRangeParallelThreshold(store.VerifSetDeleteRangeParallelThreshold(2))
		}
		pre := c08Pre(t, run, rc.Cfg, rc.Hist, true)
		if pre != nil {
			c14Run(t, run, rc, pre)
		}
		fmt.Printf("replayed %+v: violations=%d\n", rc, run.Violations())
		return
	}
	depth := vk.Pick(run, 2, 3)
	run.Set("state_depth", depth)
	a := alphaOpts{MaxSlice: 3, Deletes: true, Restart: true, ReadAll: true}
	dl := vk.NewDeadline(vk.Pick(run, 10*time.Minute, 45*time.Minute))
	states := 0
	for _, parallel := range []bool{false, true} {
		if parallel {
			old := store.VerifSetDeleteRangeParallelThreshold(2)
			defer store.VerifSetDeleteRangeParallelThreshold(old)
		}
		for _, cfg := range c08Configs(run) {
			cfg := cfg
			if parallel && (cfg.Cache == 2 || (cfg.Batch == 2 && !run.Thorough())) {
				continue
			}
			r := collectStates(t, run, "C14", cfg, depth, a, dl)
			states += r.States
			q := vk.NewWorkQueue(len(r.Histories))
			vk.Shards(t, vk.NumShards(), func(t *testing.T, shard int) {
				for {
					if dl.Hit() {
						run.NotExhaustive("time budget hit in " + cfg.String())
						return
					}
					i, ok := q.Next()
					if !ok {
						return
					}
					hist := r.Histories[i]
					pre := c08Pre(t, run, cfg, hist, true)
					if pre == nil {
						continue
					}
					for _, p := range deletePairs(pre.head, pre.tail) {
						if !refAccepts(pre.head, pre.tail, p[0], p[1]) {
							continue
						}
						if parallel && p[1]-p[0] < 2 {
							continue
						}
						width := int(p[1] - p[0])
						for nh := 1; nh <= 2; nh++ {
							base := c14Case{Cfg: cfg, Hist: hist, From: p[0], To: p[1], Handlers: nh, Parallel: parallel}
							c14Run(t, run, base, pre)
							run.AddEval(1)
							if nh == 1 && width >= 3 {
								for pf := p[0] + 1; pf <= p[0]+2 && pf+1 < p[1]; pf++ {
									pc := base
									pc.PersistFrom = pf
									c14Run(t, run, pc, pre)
									run.AddEval(1)
								}
							}
							for fh := 0; fh < nh; fh++ {
								for k := 1; k <= width; k++ {
									for _, pn := range []int{0, 1, 2} {
										fc := base
										fc.FailHandler, fc.FailAt, fc.Panic, fc.WrapNF = fh, k, pn == 1, pn == 2
										c14Run(t, run, fc, pre)
										run.AddEval(1)
									}
								}
							}
						}
					}
					if i%53 == 0 {
						run.Sample(map[string]any{"cfg": cfg.String(), "parallel": parallel, "state_history": histString(hist)})
					}
				}
			})
		}
	}
	run.AddStates(int64(states))
	_ = strings.Join
}
