package storex

import (
	"context"
	"os"
	"sync"
	"testing"
	"time"

	"github.com/celestiaorg/go-header/store"

	"verif/vk"
)

// TestRacePass is the auxiliary free-running pass of C12/C17: the same thread bodies as the
// schedule-explorer scenarios, on the UNINSTRUMENTED store with real goroutines, meant to be run
// under `go test -race` (tools/racepass.sh). It samples schedules; it decides nothing.
func TestRacePass(t *testing.T) {
	if os.Getenv("VERIF_RACEPASS") == "" {
		t.Skip("run through tools/racepass.sh")
	}
	iters := 300
	c := vk.GenChain(vk.ChainSpec{N: 8, Step: time.Second})
	for it := 0; it < iters; it++ {
		for _, batch := range []int{1, 2, 64} {
			ds := vk.NewLogDS()
			st, err := store.NewStore[*vk.H](ds.Wrap(it%2 == 0), store.WithWriteBatchSize(batch))
			if err != nil {
				t.Fatal(err)
			}
			bg := context.Background()
			if err := st.Start(bg); err != nil {
				t.Fatal(err)
			}
			_ = st.Append(bg, c.Slice(1, 2)...)
			_ = st.Sync(bg)
			var wg sync.WaitGroup
			run := func(f func()) { wg.Add(1); go func() { defer wg.Done(); f() }() }
			run(func() { _ = st.Append(bg, c.Slice(3, 4)...) })
			run(func() { _ = st.Append(bg, c.Slice(5, 6)...) })
			run(func() {
				for i := 0; i < 3; i++ {
					h, err := st.Head(bg)
					if err != nil {
						continue
					}
					_ = st.Height()
					ctx, cancel := context.WithTimeout(bg, time.Second)
					_, _ = st.GetByHeight(ctx, h.Height())
					_, _ = st.Get(ctx, h.Hash())
					cancel()
				}
			})
			run(func() {
				ctx, cancel := context.WithTimeout(bg, 2*time.Second)
				defer cancel()
				_, _ = st.GetByHeight(ctx, 6)
			})
			run(func() {
				ctx, cancel := context.WithTimeout(bg, 2*time.Second)
				defer cancel()
				_ = st.DeleteRange(ctx, 1, 2)
			})
			wg.Wait()
			_ = st.Sync(bg)
			sctx, cancel := context.WithTimeout(bg, 5*time.Second)
			_ = st.Stop(sctx)
			cancel()
		}
	}
}
