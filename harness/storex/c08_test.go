package storex

import (
	"context"
	"fmt"
	"math"
	"sort"
	"strings"
	"sync/atomic"
	"testing"
	"time"

	"github.com/celestiaorg/go-header/store"

	"verif/vk"
)

type c08Case struct {
	Cfg     Cfg    `json:"cfg"`
	Hist    []Op   `json:"hist"`
	From    uint64 `json:"from"`
	To      uint64 `json:"to"`
	Reading bool   `json:"reading_handler"`
	Cont    []Op   `json:"cont"`
	// FailWrite: index (relative to the first write of the DeleteRange call) of the failing
	// datastore write, -1 = no fault.
	FailWrite int `json:"fail_write"`
	// Parallel: run with the parallel deletion path forced (threshold hook = 2).
	Parallel bool `json:"parallel,omitempty"`
	// RejectFrom: the OnDelete handler rejects every height >= RejectFrom during the call
	// (a part-way failure that can hit several parallel workers at once); 0 = off.
	RejectFrom uint64 `json:"reject_from,omitempty"`
	// Queued: this many headers above the head are appended right before the DeleteRange call, without
	// waiting for them (slow datastore): they still sit in the write queue when DeleteRange starts.
	// The pre-state passed to c08Run is the one AFTER that append has settled.
	Queued int `json:"queued_append,omitempty"`
}

// collectStates explores the store alphabet and returns one shortest history per distinct state.
func collectStates(t *testing.T, run *vk.Run, id string, cfg Cfg, depth int, a alphaOpts, dl *vk.Deadline) vk.BFSResult[Op] {
	return vk.BFS(t, depth, vk.NumShards(), dl, func(t *testing.T, shard int, hist []Op) vk.Step[Op] {
		var step vk.Step[Op]
		runHist(t, run, id, cfg, hist, nil, func(w *World) {
			step.Key = w.StateKey()
			head, tail := w.headTail()
			step.Next = enabledOps(cfg, head, tail, a)
		})
		if step.Key == "" {
			step.Skip = true
		}
		return step
	})
}

// deletePairs: all (from,to) over the relative position alphabet.
func deletePairs(head, tail uint64) [][2]uint64 {
	pos := map[uint64]bool{0: true, math.MaxUint64: true}
	if head != 0 {
		for _, p := range []uint64{tail - 1, tail, tail + 1, (tail + head) / 2, head - 1, head, head + 1, head + 2} {
			pos[p] = true
		}
	} else {
		pos[1], pos[2] = true, true
	}
	var ps []uint64
	for p := range pos {
		ps = append(ps, p)
	}
	sort.Slice(ps, func(i, j int) bool { return ps[i] < ps[j] })
	var out [][2]uint64
	for _, f := range ps {
		for _, t := range ps {
			out = append(out, [2]uint64{f, t})
		}
	}
	return out
}

func rangeKind(head, tail, from, to uint64) string {
	switch {
	case head == 0:
		return "empty-store"
	case from >= to:
		return "from>=to"
	case from == tail && to == head+1:
		return "whole"
	case from == tail && to <= head:
		return "prefix"
	case to == head+1 && from > tail && from <= head:
		return "suffix"
	case from > head || to <= tail:
		return "outside"
	case from < tail:
		return "below-tail"
	case to > head+1:
		return "beyond-head"
	}
	return "middle"
}

type preState struct {
	obs Obs
	img string
	// imgFlushed: the raw image once the pending batch has been written out (nothing else changed);
	// DeleteRange may flush before it validates the range, which is not an effect on the store's content
	imgFlushed string
	head, tail uint64
	pending    []uint64
	model      map[uint64]bool
	logLen     int
}

// c08Run executes one case. pre is the observation of the state before the delete
// (computed by an identical replay without the delete).
func c08Run(t *testing.T, run *vk.Run, c c08Case, pre *preState) {
	n := uint64(c.Cfg.N)
	kind := rangeKind(pre.head, pre.tail, c.From, c.To)
	where := "flushed"
	for _, p := range pre.pending {
		if p >= c.From && p < c.To {
			where = "pending"
		}
	}
	contK := "none"
	if len(c.Cont) > 0 {
		ks := make([]string, len(c.Cont))
		for i, o := range c.Cont {
			ks[i] = o.K
		}
		contK = strings.Join(ks, "+")
	}
	fault := fmt.Sprint(c.FailWrite >= 0)
	if c.RejectFrom > 0 {
		fault = "handler-rejects"
	}
	feat := fmt.Sprintf("%s,%s,%s,txn=%v,reading=%v,cont=%s,fault=%s", kind, where, c.Cfg.BatchClass(), c.Cfg.Txn, c.Reading, contK, fault)
	if c.Parallel {
		feat += ",parallel=true"
	}
	if c.Queued > 0 {
		feat += ",queued-append"
	}
	viol := func(clause, format string, a ...any) {
		run.Violate("C08/"+clause+"/"+feat, c, "%s [%d,%d) after [%s] on %v (head %d tail %d pending %v) cont [%s]: %s",
			"DeleteRange", c.From, c.To, histString(c.Hist), c.Cfg, pre.head, pre.tail, pre.pending, histString(c.Cont), fmt.Sprintf(format, a...))
	}
	var handlers func(w *World)
	var rec *handlerRec
	if c.Reading || c.RejectFrom > 0 {
		rec = &handlerRec{Read: c.Reading, Locked: c.Parallel}
		handlers = func(w *World) { addHandlers(w, rec) }
	}
	runHist(t, run, "C08", c.Cfg, c.Hist, handlers, func(w *World) {
		if c.RejectFrom > 0 {
			rec.FailFromHeight = c.RejectFrom
			defer func() { rec.FailFromHeight = 0 }()
		}
		if c.FailWrite >= 0 {
			w.settle()
			w.DS.FailWrites(w.DS.Writes()+c.FailWrite, 1)
		}
		if c.Queued > 0 {
			w.settle()
			h0, _ := w.headTail()
			w.DS.OnOp = func(kind string) {
				if kind == "commit" || kind == "put" || kind == "delete" {
					time.Sleep(time.Millisecond)
				}
			}
			if aerr := w.St.Append(context.Background(), w.C.Slice(h0+1, h0+uint64(c.Queued))...); aerr != nil {
				viol("queued-append-failed", "Append: %v", aerr)
				return
			}
			for h := h0 + 1; h <= h0+uint64(c.Queued); h++ {
				w.M[h] = true
			}
			w.ExpectNonEmpty = true
		}
		err, pan := w.Apply(Op{K: "delete", From: c.From, To: c.To, NS: c.Queued > 0})
		w.DS.OnOp = nil
		if c.Queued > 0 && err == nil && pan == "" && kind == "whole" {
			// Apply judged "whole chain" against the head before the queued append was drained
			w.ExpectNonEmpty = false
		}
		w.DS.FailWrites(-1, 0)
		if pan != "" {
			viol("panic", "panicked: %s", pan)
			return
		}
		accept := refAccepts(pre.head, pre.tail, c.From, c.To)
		run.Distinct(fmt.Sprintf("%s|err=%v", feat, err != nil))
		if !accept {
			if err == nil {
				viol("invalid-range-accepted", "returned nil for a %s range", kind)
				return
			}
			img := vk.ImageHash(w.DS.Image())
			o := w.Observe()
			if img != pre.img && img != pre.imgFlushed {
				viol("rejected-range-had-effect", "datastore image changed (beyond writing out the pending batch) although the call failed with: %v", err)
			}
			// the set of heights still waiting in the write batch is internal (hook) state: DeleteRange
			// may write the batch out before it validates the range; everything the public API shows
			// must be unchanged
			oCmp, preCmp := o, pre.obs
			oCmp.Pending, preCmp.Pending = nil, nil
			if oCmp.Key() != preCmp.Key() {
				viol("rejected-range-had-effect", "observation changed although the call failed with %v:\nbefore %s\nafter  %s", err, pre.obs.Key(), o.Key())
			}
			return
		}
		if c.RejectFrom > 0 {
			rec.FailFromHeight = 0 // the handler recovers before any retry
			if err == nil {
				viol("handler-error-swallowed", "handler rejected every height >= %d but DeleteRange returned nil", c.RejectFrom)
				return
			}
			for h := c.RejectFrom; h < c.To && h <= n; h++ {
				if pre.model[h] {
					if o := w.Observe(); o.ByHeight[h] != "ok" || o.ByHash[h] != "ok" {
						viol("partial-removed-rejected-header", "handler rejected height %d but it is no longer readable (by height %s, by hash %s)", h, o.ByHeight[h], o.ByHash[h])
					}
					break
				}
			}
		}
		if err != nil && c.FailWrite < 0 && c.RejectFrom == 0 {
			viol("valid-range-rejected", "a %s range failed without any fault: %v", kind, err)
			return
		}
		if err != nil {
			// part-way failure
			c08Partial(w, c, pre, kind, viol)
			return
		}
		// accepted and completed: raw keys must be gone, nothing of the range in pending
		for h := c.From; h < c.To && h <= n; h++ {
			if h == 0 {
				continue
			}
			hk, htk, _, _ := storeKeys(w, h)
			if w.DS.RawHas(hk) || w.DS.RawHas(htk) {
				viol("raw-keys-remain", "datastore still holds keys of deleted height %d (header key %v, height key %v)", h, w.DS.RawHas(hk), w.DS.RawHas(htk))
			}
		}
		for _, p := range w.St.VerifPendingHeights() {
			if p >= c.From && p < c.To {
				viol("deleted-still-pending", "deleted height %d is still in the write batch", p)
			}
		}
		for _, op := range c.Cont {
			if _, pan := w.Apply(op); pan != "" {
				viol("panic", "continuation %s panicked: %s", op, pan)
				return
			}
		}
		o := w.Observe()
		w.CheckInvariants(o, true, func(clause, msg string) {
			if strings.HasPrefix(clause, "dead-header-readable") || clause == "has-disagrees" {
				clause = "deleted-still-readable"
			}
			viol(clause, "%s", msg)
		})
		// headers outside the range are untouched
		for h := uint64(1); h <= n; h++ {
			if h >= c.From && h < c.To {
				continue
			}
			if pre.model[h] && (o.ByHeight[h] != "ok" || o.ByHash[h] != "ok") {
				viol("outside-range-damaged", "height %d outside the range is no longer readable (by height %s, by hash %s)", h, o.ByHeight[h], o.ByHash[h])
			}
		}
		if len(c.Cont) == 0 {
			// pointers describe the remaining chain
			switch kind {
			case "whole":
				if o.HeadErr != "empty" || o.TailErr != "empty" {
					viol("pointers-wrong", "whole chain deleted but Head=%d(%s) Tail=%d(%s)", o.Head, o.HeadErr, o.Tail, o.TailErr)
				}
			case "prefix":
				if o.Tail != c.To || o.Head != pre.head {
					viol("pointers-wrong", "prefix deleted: want Tail %d Head %d, got Tail %d Head %d", c.To, pre.head, o.Tail, o.Head)
				}
			case "suffix":
				if o.Head != c.From-1 || o.Tail != pre.tail {
					viol("pointers-wrong", "suffix deleted: want Tail %d Head %d, got Tail %d Head %d", pre.tail, c.From-1, o.Tail, o.Head)
				}
			}
		}
	})
}

// c08Partial: oracle for a DeleteRange that failed part-way because of an injected fault.
func c08Partial(w *World, c c08Case, pre *preState, kind string, viol func(clause, format string, a ...any)) {
	n := uint64(c.Cfg.N)
	o := w.Observe()
	for h := uint64(1); h <= n; h++ {
		if h >= c.From && h < c.To {
			continue
		}
		if pre.model[h] && (o.ByHeight[h] != "ok" || o.ByHash[h] != "ok") {
			viol("partial-outside-range-damaged", "height %d outside the range unreadable after a failed delete (by height %s, by hash %s)", h, o.ByHeight[h], o.ByHash[h])
		}
	}
	if kind == "whole" && o.HeadErr == "empty" && o.TailErr == "empty" {
		// every header of the chain was removed and only the pointer clean-up failed: an empty
		// store is the only consistent outcome (there is no stored header left to resolve to)
		for h := c.From; h < c.To && h <= n; h++ {
			if h >= 1 && (o.ByHeight[h] == "ok" || o.ByHash[h] == "ok") {
				viol("partial-empty-but-readable", "store reports empty after a failed whole-chain delete but height %d is still readable", h)
			}
		}
		return
	}
	if o.HeadErr != "" || o.TailErr != "" {
		viol("partial-pointers-unresolved", "after failed delete Head err=%q Tail err=%q", o.HeadErr, o.TailErr)
		return
	}
	if o.Tail > o.Head {
		viol("partial-tail-above-head", "tail %d head %d", o.Tail, o.Head)
	}
	for h := o.Tail; h <= o.Head && h <= n; h++ {
		if o.ByHeight[h] != "ok" {
			viol("partial-gap-in-chain", "GetByHeight(%d)=%s inside [Tail %d, Head %d] after failed delete", h, o.ByHeight[h], o.Tail, o.Head)
		}
	}
	if kind == "prefix" || kind == "whole" {
		// retrying the tail-side deletion completes it
		if o.Tail < c.To {
			err, pan := w.Apply(Op{K: "delete", From: o.Tail, To: c.To})
			if pan != "" || err != nil {
				viol("partial-retry-fails", "retry DeleteRange(%d,%d) after healed fault: err=%v panic=%s", o.Tail, c.To, err, pan)
				return
			}
		}
		o2 := w.Observe()
		for h := c.From; h < c.To && h <= n; h++ {
			if h >= 1 && (o2.ByHeight[h] == "ok" || o2.ByHash[h] == "ok") {
				viol("partial-retry-incomplete", "height %d still readable after the retried tail-side deletion", h)
			}
		}
	}
}

func storeKeys(w *World, h uint64) (hashK, heightK, headK, tailK string) {
	hk, htk, hdk, tlk := storeVerifKeys(w.C[h])
	p := "/headers"
	return p + hk, p + htk, p + hdk, p + tlk
}

func c08Conts(c Cfg, pre *preState, from, to uint64) [][]Op {
	n := uint64(c.N)
	conts := [][]Op{nil, {{K: "restart"}}, {{K: "readall"}, {K: "restart"}}}
	if pre.head+1 <= n {
		conts = append(conts, []Op{{K: "append", Lo: pre.head + 1, Hi: pre.head + 1}})
		conts = append(conts, []Op{{K: "restart"}, {K: "append", Lo: pre.head + 1, Hi: pre.head + 1}})
		if pre.head+2 <= n {
			conts = append(conts, []Op{{K: "append", Lo: pre.head + 1, Hi: pre.head + 2}})
		}
	}
	// an unrelated lower slice (below the old tail) and re-appending part of the range
	if pre.tail > 1 {
		conts = append(conts, []Op{{K: "append", Lo: pre.tail - 1, Hi: pre.tail - 1}})
	}
	if from >= 1 && from <= n {
		conts = append(conts, []Op{{K: "append", Lo: from, Hi: from}, {K: "restart"}})
	}
	return conts
}

func c08Pre(t *testing.T, run *vk.Run, cfg Cfg, hist []Op, reading bool) *preState {
	var pre *preState
	var handlers func(w *World)
	if reading {
		handlers = func(w *World) { addHandlers(w, &handlerRec{Read: true}) }
	}
	runHist(t, run, "C08", cfg, hist, handlers, func(w *World) {
		w.settle()
		p := &preState{img: vk.ImageHash(w.DS.Image()), pending: w.St.VerifPendingHeights(), model: map[uint64]bool{}}
		p.head, p.tail = w.headTail()
		p.logLen = len(w.DS.Log())
		for h := range w.M {
			p.model[h] = true
		}
		p.obs = w.Observe()
		// normalise: a rejected call may write the pending batch out
		_, _ = w.Apply(Op{K: "delete", From: 0, To: 0})
		p.imgFlushed = vk.ImageHash(w.DS.Image())
		pre = p
	})
	return pre
}

// c08Writes counts the datastore writes a fault-free DeleteRange performs.
func c08Writes(t *testing.T, run *vk.Run, c c08Case) int {
	nw := 0
	var handlers func(w *World)
	if c.Reading {
		handlers = func(w *World) { addHandlers(w, &handlerRec{Read: true}) }
	}
	runHist(t, run, "C08", c.Cfg, c.Hist, handlers, func(w *World) {
		w.settle()
		before := w.DS.Writes()
		w.Apply(Op{K: "delete", From: c.From, To: c.To})
		nw = w.DS.Writes() - before
	})
	return nw
}

func c08Configs(run *vk.Run) []Cfg {
	var out []Cfg
	for _, b := range []int{1, 2, 64} {
		for _, c := range []int{2, 0} {
			for _, txn := range []bool{false, true} {
				if !run.Thorough() && c == 2 && txn {
					continue
				}
				out = append(out, Cfg{N: 5, Batch: b, Cache: c, Txn: txn})
			}
		}
	}
	return out
}

func TestC08(t *testing.T) {
	run := vk.NewRun("C08", "model_checking")
	defer run.Finish()
	run.SetRule("for every distinct store state reached by BFS over the store alphabet (depth d), every (from,to) pair over relative positions {0,tail-1,tail,tail+1,mid,head-1,head,head+1,head+2,2^64-1}, with and without an OnDelete handler that reads the header, every continuation from a fixed list (restart, appends above the old head, re-append, readall+restart), for accepted ranges every single failing datastore write position, and every pair again with one more header appended right before the call and still in the write queue (slow datastore); distinct = (range kind, pending/flushed, flush regime, flavour, handler, continuation, fault, outcome)")
	run.Assume("reference: acceptance from observed Head/Tail; model = set of live heights; C04 invariants with dead-header checks")

	var rc c08Case
	if is, err := vk.ReplayCase(&rc); is {
		if err != nil {
			t.Fatal(err)
		}
		if rc.Parallel {
			defer store.VerifSetDeleteRangeParallelThreshold(store.VerifSetDeleteRangeParallelThreshold(2))
		}
		pre := c08Pre(t, run, rc.Cfg, rc.Hist, rc.Reading)
		if pre != nil {
			c08Run(t, run, rc, pre)
		}
		fmt.Printf("replayed %+v: violations=%d\n", rc, run.Violations())
		return
	}
	depth := vk.Pick(run, 2, 3)
	run.Set("state_depth", depth)
	a := alphaOpts{MaxSlice: 3, Deletes: true, Restart: true, ReadAll: true}
	dl := vk.NewDeadline(vk.Pick(run, 10*time.Minute, 45*time.Minute))
	states, cases := 0, 0
	for _, cfg := range c08Configs(run) {
		cfg := cfg
		r := collectStates(t, run, "C08", cfg, depth, a, dl)
		states += r.States
		if r.Capped {
			run.NotExhaustive("time budget hit while collecting states of " + cfg.String())
		}
		// work items: (history, reading)
		type item struct {
			hist    []Op
			reading bool
		}
		var items []item
		for _, h := range r.Histories {
			items = append(items, item{h, false}, item{h, true})
		}
		q := vk.NewWorkQueue(len(items))
		vk.Shards(t, vk.NumShards(), func(t *testing.T, shard int) {
			for {
				if dl.Hit() {
					run.NotExhaustive("time budget hit in delete battery of " + cfg.String())
					return
				}
				i, ok := q.Next()
				if !ok {
					return
				}
				it := items[i]
				pre := c08Pre(t, run, cfg, it.hist, it.reading)
				if pre == nil {
					continue
				}
				for _, p := range deletePairs(pre.head, pre.tail) {
					base := c08Case{Cfg: cfg, Hist: it.hist, From: p[0], To: p[1], Reading: it.reading, FailWrite: -1}
					c08Run(t, run, base, pre)
					run.AddEval(1)
					if !refAccepts(pre.head, pre.tail, p[0], p[1]) {
						continue
					}
					for _, cont := range c08Conts(cfg, pre, p[0], p[1]) {
						if cont == nil {
							continue
						}
						cc := base
						cc.Cont = cont
						c08Run(t, run, cc, pre)
						run.AddEval(1)
					}
					for rf := p[0]; rf < p[1] && rf <= pre.head && rf <= p[0]+2; rf++ {
						if rf == 0 {
							continue
						}
						rc := base
						rc.RejectFrom = rf
						c08Run(t, run, rc, pre)
						run.AddEval(1)
					}
					if !it.reading {
						nw := c08Writes(t, run, base)
						for j := 0; j < nw; j++ {
							fc := base
							fc.FailWrite = j
							c08Run(t, run, fc, pre)
							run.AddEval(1)
						}
					}
				}
				// queued append: the same ranges (relative to the head after the append) while the
				// appended header is still in the write queue
				if !it.reading && pre.head != 0 && pre.head+1 <= uint64(cfg.N) {
					h2 := append(append([]Op(nil), it.hist...), Op{K: "append", Lo: pre.head + 1, Hi: pre.head + 1})
					if pre2 := c08Pre(t, run, cfg, h2, false); pre2 != nil {
						for _, p := range deletePairs(pre2.head, pre2.tail) {
							qc := c08Case{Cfg: cfg, Hist: it.hist, From: p[0], To: p[1], FailWrite: -1, Queued: 1}
							c08Run(t, run, qc, pre2)
							run.AddEval(1)
						}
					}
				}
				if i%97 == 0 {
					run.Sample(map[string]any{"cfg": cfg.String(), "state_history": histString(it.hist), "pairs": len(deletePairs(pre.head, pre.tail))})
				}
			}
		})
		cases++
		// determinism: replay pre-state twice
		for i := 0; i < len(r.Histories); i += 1 + len(r.Histories)/10 {
			p1 := c08Pre(t, run, cfg, r.Histories[i], false)
			p2 := c08Pre(t, run, cfg, r.Histories[i], false)
			if p1 == nil || p2 == nil || p1.obs.Key() != p2.obs.Key() || p1.img != p2.img {
				run.HarnessError("replay divergence on %v [%s]", cfg, histString(r.Histories[i]))
			}
			run.AddValidated(1)
		}
	}
	run.AddStates(int64(states))
	run.Set("configs", cases)
	c08ParallelPhase(t, run, depth, a, dl)
}

// c08ParallelPhase repeats the no-fault and handler-rejects cases with the parallel deletion path
// forced by the threshold hook (ranges of at least 2 headers).
func c08ParallelPhase(t *testing.T, run *vk.Run, depth int, a alphaOpts, dl *vk.Deadline) {
	old := store.VerifSetDeleteRangeParallelThreshold(2)
	defer store.VerifSetDeleteRangeParallelThreshold(old)
	pcases := int64(0)
	for _, cfg := range c08Configs(run) {
		if cfg.Cache == 2 || cfg.Batch == 2 {
			continue
		}
		cfg := cfg
		r := collectStates(t, run, "C08", cfg, depth, a, dl)
		q := vk.NewWorkQueue(len(r.Histories))
		vk.Shards(t, vk.NumShards(), func(t *testing.T, shard int) {
			for {
				if dl.Hit() {
					run.NotExhaustive("time budget hit in parallel delete battery of " + cfg.String())
					return
				}
				i, ok := q.Next()
				if !ok {
					return
				}
				hist := r.Histories[i]
				pre := c08Pre(t, run, cfg, hist, true)
				if pre == nil {
					continue
				}
				for _, p := range deletePairs(pre.head, pre.tail) {
					if !refAccepts(pre.head, pre.tail, p[0], p[1]) || p[1]-p[0] < 2 {
						continue
					}
					base := c08Case{Cfg: cfg, Hist: hist, From: p[0], To: p[1], Reading: true, FailWrite: -1, Parallel: true}
					c08Run(t, run, base, pre)
					run.AddEval(1)
					atomic.AddInt64(&pcases, 1)
					for rf := p[0]; rf < p[1] && rf <= pre.head; rf++ {
						if rf == 0 {
							continue
						}
						rc := base
						rc.RejectFrom = rf
						c08Run(t, run, rc, pre)
						run.AddEval(1)
						atomic.AddInt64(&pcases, 1)
					}
				}
			}
		})
	}
	run.Set("parallel_path_cases", pcases)
}
