package pure

import (
	"errors"
	"fmt"
	"math"
	"reflect"
	"strings"
	"testing"
	"time"

	"github.com/celestiaorg/go-header"

	"verif/vk"
)

// drift is the clock-drift allowance named by the statement (verify.go: clockDrift).
const drift = 10 * time.Second

var errType = errors.New("type-level verify sentinel")
var errOther = errors.New("unrelated joined error")

type c01Case struct {
	TrustedZero   bool   `json:"trusted_zero"`
	UntrustedZero bool   `json:"untrusted_zero"`
	Chain         int    `json:"chain"` // 0 equal, 1 different, 2 equal ignoring case
	THeight       uint64 `json:"t_height"`
	Rel           int    `json:"rel"`        // index into rels
	UTime         int    `json:"u_time"`     // index into utimes (relative to now)
	TTime         int    `json:"t_time"`     // index into ttimes (trusted relative to untrusted)
	TypeRes       int    `json:"type_res"`   // index into typeResKinds
	SharedErr     bool   `json:"shared_err"` // second call of an ordered pair sharing one error object
}

var rels = []int64{-1, 0, 1, 2, 9}
var theights = []uint64{1, 7, math.MaxUint64 - 1, math.MaxUint64}
var utimes = []time.Duration{-time.Hour, 0, drift, drift + 1, time.Hour} // untrusted - now
var ttimes = []time.Duration{1, 0, -1, -time.Hour}                       // trusted - untrusted
var typeResKinds = []string{"nil", "plain", "bare-hard", "bare-soft", "wrapped-hard", "wrapped-soft", "joined-hard"}

// mkTypeErr builds the type-level result for kind k. sharedObj, when non-nil, is used
// as the *VerifyError object (to model a type that returns a package-level error value).
func mkTypeErr(k int, sharedObj *header.VerifyError) (err error, typeSoft bool) {
	switch typeResKinds[k] {
	case "nil":
		return nil, false
	case "plain":
		return fmt.Errorf("ctx: %w", errType), false
	case "bare-hard":
		if sharedObj != nil {
			return sharedObj, sharedObj.SoftFailure
		}
		return &header.VerifyError{Reason: errType}, false
	case "bare-soft":
		return &header.VerifyError{Reason: errType, SoftFailure: true}, true
	case "wrapped-hard":
		return fmt.Errorf("ctx: %w", &header.VerifyError{Reason: errType}), false
	case "wrapped-soft":
		return fmt.Errorf("ctx: %w", &header.VerifyError{Reason: errType, SoftFailure: true}), true
	case "joined-hard":
		return errors.Join(&header.VerifyError{Reason: errType}, errOther), false
	}
	panic("bad kind")
}

func buildC01(c c01Case, now time.Time, typeErr error) (tr, un *vk.H) {
	if !c.TrustedZero {
		tr = &vk.H{Chain: "Chain-A", Ht: c.THeight, Sig: "s"}
		tr.VerifyHook = func(_, _ *vk.H) error { return typeErr }
	}
	if !c.UntrustedZero {
		un = &vk.H{Chain: "Chain-A", Sig: "s"}
		switch c.Chain {
		case 1:
			un.Chain = "Chain-B"
		case 2:
			un.Chain = "chain-a"
		}
		un.Ht = c.THeight + uint64(rels[c.Rel]) // wraps like the code's arithmetic would
		un.TNano = now.Add(utimes[c.UTime]).UnixNano()
	}
	if tr != nil {
		ut := now.Add(utimes[c.UTime])
		tr.TNano = ut.Add(ttimes[c.TTime]).UnixNano()
	}
	return
}

var sentinels = map[string]error{
	"zero":      header.ErrZeroHeader,
	"chain":     header.ErrWrongChainID,
	"known":     header.ErrKnownHeader,
	"unordered": header.ErrUnorderedTime,
	"future":    header.ErrFromFuture,
}

// refMandatory is the independent reference for the mandatory checks: which conditions fail.
func refMandatory(tr, un *vk.H, now time.Time) []string {
	if tr == nil || un == nil {
		return []string{"zero"}
	}
	var f []string
	if un.Chain != tr.Chain {
		f = append(f, "chain")
	}
	if !(un.Ht > tr.Ht) {
		f = append(f, "known")
	}
	if un.TNano < tr.TNano {
		f = append(f, "unordered")
	}
	if un.TNano > now.Add(drift).UnixNano() {
		f = append(f, "future")
	}
	return f
}

func snapshot(h *vk.H) string {
	if h == nil {
		return "nil"
	}
	return fmt.Sprintf("%s|%d|%d|%x|%s|%d|%d|%v", h.Chain, h.Ht, h.TNano, h.Prev, h.Sig, h.R, h.Salt, h.Bad)
}

// checkC01 runs one case on the real header.Verify and applies the oracle.
func checkC01(run *vk.Run, c c01Case, now time.Time) {
	var shared *header.VerifyError
	if c.SharedErr {
		// First call of the ordered pair: same shared error object, non-adjacent untrusted.
		shared = &header.VerifyError{Reason: errType}
		tr0 := &vk.H{Chain: "Chain-A", Ht: 5, Sig: "s", TNano: now.Add(-time.Hour).UnixNano()}
		tr0.VerifyHook = func(_, _ *vk.H) error { return shared }
		un0 := &vk.H{Chain: "Chain-A", Ht: 9, Sig: "s", TNano: now.Add(-time.Minute).UnixNano()}
		_ = header.Verify(tr0, un0)
	}
	typeErr, typeSoft := mkTypeErr(c.TypeRes, shared)
	if c.SharedErr {
		typeSoft = false // the type reported a hard failure; only the library may have flipped the flag
	}
	tr, un := buildC01(c, now, typeErr)
	before := snapshot(tr) + "/" + snapshot(un)

	err, pan := vk.TryErr(func() error { return header.Verify(tr, un) })
	feat := fmt.Sprintf("tz=%v,uz=%v,type=%s,shared=%v", c.TrustedZero, c.UntrustedZero, typeResKinds[c.TypeRes], c.SharedErr)
	if pan != "" {
		run.Violate("C01/panic/"+feat, c, "Verify panicked: %s", pan)
		return
	}
	if after := snapshot(tr) + "/" + snapshot(un); after != before {
		run.Violate("C01/input-mutated/"+feat, c, "inputs mutated: %s -> %s", before, after)
	}

	failing := refMandatory(tr, un, now)
	adjacent := tr != nil && un != nil && un.Ht == tr.Ht+1
	feat += fmt.Sprintf(",fail=%s,adj=%v", strings.Join(failing, "+"), adjacent)
	run.Distinct(feat)

	expectNil := len(failing) == 0 && typeErr == nil
	if expectNil {
		if err != nil {
			run.Violate("C01/rejects-valid/"+feat, c, "expected nil, got %v", err)
		}
		return
	}
	if err == nil {
		run.Violate("C01/accepts-invalid/"+feat, c, "Verify returned nil; failing mandatory=%v typeErr=%v", failing, typeErr)
		return
	}
	ve, ok := err.(*header.VerifyError)
	if !ok || ve == nil || reflect.ValueOf(err).IsNil() {
		run.Violate("C01/not-a-VerifyError/"+feat, c, "rejection is %T (%v), not *VerifyError", err, err)
		return
	}
	if len(failing) > 0 {
		okSent := false
		for name, s := range sentinels {
			is := errors.Is(err, s)
			fails := false
			for _, f := range failing {
				if f == name {
					fails = true
				}
			}
			if is && fails {
				okSent = true
			}
			if is && !fails {
				run.Violate("C01/wrong-sentinel/"+feat, c, "error %v matches sentinel %q whose condition holds", err, name)
			}
		}
		if !okSent {
			run.Violate("C01/missing-sentinel/"+feat, c, "error %v wraps none of the failing sentinels %v", err, failing)
		}
		if ve.SoftFailure {
			run.Violate("C01/mandatory-soft/"+feat, c, "failed mandatory check %v reported as SoftFailure", failing)
		}
		return
	}
	// mandatory checks hold, the type's own check rejected
	if !errors.Is(err, errType) {
		run.Violate("C01/type-error-lost/"+feat, c, "result %v does not wrap the type's own error", err)
	}
	for name, s := range sentinels {
		if errors.Is(err, s) {
			run.Violate("C01/wrong-sentinel/"+feat, c, "error %v matches mandatory sentinel %q although all mandatory checks hold", err, name)
		}
	}
	wantSoft := !adjacent || typeSoft
	if ve.SoftFailure != wantSoft {
		run.Violate("C01/soft-mismatch/"+feat, c, "SoftFailure=%v, want %v (adjacent=%v, type reported soft=%v)", ve.SoftFailure, wantSoft, adjacent, typeSoft)
	}
}

func enumC01(thorough bool) []c01Case {
	var out []c01Case
	// zero combinations (other dimensions are unobservable when a header is zero; keep a few)
	for _, z := range [][2]bool{{true, false}, {false, true}, {true, true}} {
		for k := range typeResKinds {
			for _, th := range theights {
				out = append(out, c01Case{TrustedZero: z[0], UntrustedZero: z[1], THeight: th, Rel: 2, UTime: 1, TTime: 2, TypeRes: k})
			}
		}
	}
	for chain := 0; chain < 3; chain++ {
		for _, th := range theights {
			for rel := range rels {
				for ut := range utimes {
					for tt := range ttimes {
						for k := range typeResKinds {
							out = append(out, c01Case{Chain: chain, THeight: th, Rel: rel, UTime: ut, TTime: tt, TypeRes: k})
						}
					}
				}
			}
		}
	}
	// ordered pairs sharing one error object: (non-adjacent call, then this call)
	for _, th := range theights[:2] {
		for rel := range rels {
			for ut := range utimes {
				for tt := range ttimes {
					out = append(out, c01Case{THeight: th, Rel: rel, UTime: ut, TTime: tt, TypeRes: 2, SharedErr: true})
				}
			}
		}
	}
	return out
}

func TestC01(t *testing.T) {
	run := vk.NewRun("C01", "model_checking")
	defer run.Finish()
	run.SetRule("full cross product of (zero-ness, chain-id relation, trusted height incl. 2^64-1, height relation incl. wrap, untrusted time vs now at the drift boundary, trusted time vs untrusted, shape of the type-level result) plus ordered pairs sharing one type-level error object; a case is non-trivial/distinct by (failing mandatory set, adjacency, type result shape, zero-ness)")
	run.Assume("clock-drift allowance is 10s (verify.go clockDrift); time.Now is the frozen synctest clock")
	run.Assume("reference oracle refMandatory (20 lines) is trusted")

	var rc c01Case
	if is, err := vk.ReplayCase(&rc); is {
		if err != nil {
			t.Fatal(err)
		}
		vk.Bubble(t, func() { checkC01(run, rc, time.Now()) })
		fmt.Printf("replayed %+v: violations=%d\n", rc, run.Violations())
		return
	}
	cases := enumC01(run.Thorough())
	res := vk.Bubble(t, func() {
		now := time.Now()
		for i, c := range cases {
			checkC01(run, c, now)
			run.AddEval(1)
			if i%977 == 0 {
				run.Sample(c)
			}
		}
		// determinism: replay a subset twice and compare verdicts
		for i := 0; i < len(cases); i += 53 {
			tr, un := buildC01(cases[i], now, nil)
			e1 := fmt.Sprint(header.Verify(tr, un))
			e2 := fmt.Sprint(header.Verify(tr, un))
			if e1 != e2 {
				run.HarnessError("nondeterministic Verify on %+v: %s vs %s", cases[i], e1, e2)
			}
			run.AddValidated(1)
		}
	})
	if !res.OK() {
		run.HarnessError("bubble: %+v", res)
	}
}
