package pure

import (
	"errors"
	"fmt"
	"testing"
	"time"

	"github.com/celestiaorg/go-header"

	"verif/vk"
)

// per-position header kinds, relative to the previous input element
var c02Kinds = []string{
	"next",       // +1, linked, valid
	"skip",       // +2, not linked (legal only as first element: non-adjacent to trusted)
	"dup",        // same height as previous
	"lower",      // previous height - 1
	"wrongchain", // +1, linked, other chain id
	"zero",       // nil header
	"badlink",    // +1, wrong LastHeader (type-level failure; hard when adjacent)
	"badsig",     // +1/+2 linked but signed by someone else (type-level failure)
	"oldtime",    // +1 linked, time before predecessor
	"future",     // +1 linked, time beyond now+drift
	"typesoft",   // +1 linked and well-formed, but the header type's own Verify rejects it with a *VerifyError marked SoftFailure
	"typeplain",  // +1 linked and well-formed, but the header type's own Verify rejects it with a plain error
	"self",       // the previous element (the trusted header at position 0) itself, once more
}

type c02Case struct {
	TrustedZero bool  `json:"trusted_zero"`
	Kinds       []int `json:"kinds"`
}

func buildC02(c c02Case, now time.Time) (tr *vk.H, in []*vk.H) {
	base := &vk.H{Chain: "vk", Ht: 10, Sig: "honest", TNano: now.Add(-time.Hour).UnixNano()}
	base.Hash()
	if !c.TrustedZero {
		tr = base
	}
	prev := base
	for _, k := range c.Kinds {
		var h *vk.H
		mk := func(dh int64) *vk.H {
			n := &vk.H{Chain: "vk", Ht: uint64(int64(prev.Ht) + dh), Sig: "honest", TNano: prev.TNano + int64(time.Second), Prev: prev.Hash()}
			return n
		}
		switch c02Kinds[k] {
		case "next":
			h = mk(1)
		case "skip":
			h = mk(2)
			h.Prev = []byte("unknown-parent")
		case "dup":
			h = mk(0)
			h.Prev = prev.Prev
		case "lower":
			h = mk(-1)
		case "wrongchain":
			h = mk(1)
			h.Chain = "other"
		case "zero":
			h = nil
		case "badlink":
			h = mk(1)
			h.Prev = []byte("forged-parent")
		case "badsig":
			h = mk(1)
			h.Sig = "evil"
		case "oldtime":
			h = mk(1)
			h.TNano = prev.TNano - int64(time.Hour)
		case "future":
			h = mk(1)
			h.TNano = now.Add(time.Hour).UnixNano()
		case "typesoft":
			h = mk(1)
			prev.VerifyHook = func(_, _ *vk.H) error {
				return &header.VerifyError{Reason: errors.New("vk: type-level soft rejection"), SoftFailure: true}
			}
		case "typeplain":
			h = mk(1)
			prev.VerifyHook = func(_, _ *vk.H) error { return errors.New("vk: type-level rejection") }
		case "self":
			h = prev
		}
		if h != nil {
			h.Hash()
			prev = h
		}
		in = append(in, h)
	}
	return
}

// refVerify is the reference of C01 applied to the harness header semantics.
func refVerify(tr, un *vk.H, now time.Time) bool {
	if len(refMandatory(tr, un, now)) > 0 {
		return false
	}
	return tr.Verify(un) == nil // the harness type's own, trusted, check
}

// refPrefix: length of the verified adjacent prefix.
func refPrefix(tr *vk.H, in []*vk.H, now time.Time) int {
	cur := tr
	for i, u := range in {
		if !refVerify(cur, u, now) {
			return i
		}
		if i > 0 && u.Ht != cur.Ht+1 {
			return i
		}
		cur = u
	}
	return len(in)
}

func checkC02(run *vk.Run, c c02Case, now time.Time) {
	tr, in := buildC02(c, now)
	orig := append([]*vk.H(nil), in...)
	type out struct {
		v []*vk.H
	}
	var res []*vk.H
	err, pan := vk.TryErr(func() error {
		var e error
		res, e = header.VerifyRange(tr, in)
		return e
	})
	feat := fmt.Sprintf("tz=%v", c.TrustedZero)
	if pan != "" {
		run.Violate("C02/panic/"+feat, c, "VerifyRange panicked: %s", pan)
		return
	}
	for i := range orig {
		if in[i] != orig[i] {
			run.Violate("C02/input-reordered/"+feat, c, "input slice was modified at %d", i)
			return
		}
	}
	k := refPrefix(tr, in, now)
	failKind := "none"
	if k < len(in) {
		failKind = c02Kinds[c.Kinds[k]]
	}
	feat += fmt.Sprintf(",failkind=%s,firstpos=%v", failKind, k == 0)
	run.Distinct(fmt.Sprintf("%s,k=%d,len=%d", feat, k, len(in)))

	if len(in) == 0 {
		if err == nil {
			run.Violate("C02/empty-accepted/"+feat, c, "empty input returned nil error")
		} else if _, ok := err.(*header.VerifyError); !ok {
			run.Violate("C02/not-a-VerifyError/"+feat, c, "error %T", err)
		}
		if len(res) != 0 {
			run.Violate("C02/empty-nonempty-result/"+feat, c, "empty input returned %d headers", len(res))
		}
		return
	}
	// result must be exactly input[:k] by identity
	if len(res) != k {
		cls := "C02/prefix-too-long/"
		if len(res) < k {
			cls = "C02/prefix-too-short/"
		}
		run.Violate(cls+feat, c, "returned %d headers %v, reference verified prefix is %d of %v", len(res), vk.Heights(res), k, vk.Heights(in))
	} else {
		for i := range res {
			if res[i] != in[i] {
				run.Violate("C02/not-a-prefix/"+feat, c, "result[%d] is not input[%d]", i, i)
				break
			}
		}
	}
	if (err == nil) != (k == len(in)) {
		run.Violate("C02/error-iff/"+feat, c, "err=%v but verified prefix %d of %d", err, k, len(in))
	}
	if err != nil {
		if _, ok := err.(*header.VerifyError); !ok {
			run.Violate("C02/not-a-VerifyError/"+feat, c, "error %T (%v)", err, err)
		}
	}
}

func enumC02(maxLen int, f func(c c02Case)) {
	var rec func(prefix []int)
	rec = func(prefix []int) {
		for _, tz := range []bool{false, true} {
			if tz && len(prefix) > 2 {
				continue // zero trusted: everything fails at position 0; keep short ones
			}
			f(c02Case{TrustedZero: tz, Kinds: append([]int(nil), prefix...)})
		}
		if len(prefix) == maxLen {
			return
		}
		for k := range c02Kinds {
			rec(append(prefix, k))
		}
	}
	rec(nil)
}

func TestC02(t *testing.T) {
	run := vk.NewRun("C02", "model_checking")
	defer run.Finish()
	maxLen := vk.Pick(run, 4, 6)
	run.Set("max_sequence_length", maxLen)
	run.SetRule("every sequence of length 0..L over 13 per-position header kinds (incl. the predecessor / trusted header itself once more) (valid next, skip, duplicate, lower, wrong chain, zero, bad link, bad signature, old time, future, rejected by the type's own Verify with a soft *VerifyError, rejected with a plain error) x {non-zero, zero} trusted; distinct by (first failing kind, failure position, length)")
	run.Assume("reference = fold of the C01 reference with a rolling trusted header + adjacency for i>0")

	var rc c02Case
	if is, err := vk.ReplayCase(&rc); is {
		if err != nil {
			t.Fatal(err)
		}
		vk.Bubble(t, func() { checkC02(run, rc, time.Now()) })
		fmt.Printf("replayed %+v: violations=%d\n", rc, run.Violations())
		return
	}
	res := vk.Bubble(t, func() {
		now := time.Now()
		n := 0
		enumC02(maxLen, func(c c02Case) {
			checkC02(run, c, now)
			run.AddEval(1)
			n++
			if n%3331 == 0 {
				run.Sample(map[string]any{"trusted_zero": c.TrustedZero, "kinds": kindNames(c.Kinds)})
			}
			if n%101 == 0 {
				// determinism check
				tr, in := buildC02(c, now)
				r1, e1 := header.VerifyRange(tr, in)
				r2, e2 := header.VerifyRange(tr, in)
				if len(r1) != len(r2) || fmt.Sprint(e1) != fmt.Sprint(e2) {
					run.HarnessError("nondeterministic VerifyRange on %+v", c)
				}
				run.AddValidated(1)
			}
		})
	})
	if !res.OK() {
		run.HarnessError("bubble: %+v", res)
	}
}

func kindNames(k []int) []string {
	out := make([]string, len(k))
	for i, x := range k {
		out[i] = c02Kinds[x]
	}
	return out
}
