module verif

go 1.25.7

require (
	github.com/celestiaorg/go-header v0.0.0
	github.com/celestiaorg/go-libp2p-messenger v0.2.2
	github.com/ipfs/go-datastore v0.9.0
	github.com/libp2p/go-libp2p v0.48.0
	github.com/libp2p/go-libp2p-pubsub v0.16.0
	github.com/multiformats/go-multiaddr v0.16.1
)

require (
	github.com/benbjohnson/clock v1.3.5 // indirect
	github.com/beorn7/perks v1.0.1 // indirect
	github.com/cespare/xxhash/v2 v2.3.0 // indirect
	github.com/davecgh/go-spew v1.1.1 // indirect
	github.com/decred/dcrd/dcrec/secp256k1/v4 v4.4.0 // indirect
	github.com/go-logr/logr v1.4.3 // indirect
	github.com/go-logr/stdr v1.2.2 // indirect
	github.com/gogo/protobuf v1.3.2 // indirect
	github.com/google/uuid v1.6.0 // indirect
	github.com/hashicorp/golang-lru/v2 v2.0.7 // indirect
	github.com/huin/goupnp v1.3.0 // indirect
	github.com/ipfs/go-cid v0.6.0 // indirect
	github.com/ipfs/go-log/v2 v2.9.0 // indirect
	github.com/jackpal/go-nat-pmp v1.0.2 // indirect
	github.com/klauspost/cpuid/v2 v2.3.0 // indirect
	github.com/koron/go-ssdp v0.0.6 // indirect
	github.com/libp2p/go-buffer-pool v0.1.0 // indirect
	github.com/libp2p/go-libp2p-asn-util v0.4.1 // indirect
	github.com/libp2p/go-msgio v0.3.0 // indirect
	github.com/libp2p/go-netroute v0.4.0 // indirect
	github.com/mattn/go-isatty v0.0.20 // indirect
	github.com/mr-tron/base58 v1.2.0 // indirect
	github.com/multiformats/go-base32 v0.1.0 // indirect
	github.com/multiformats/go-base36 v0.2.0 // indirect
	github.com/multiformats/go-multiaddr-fmt v0.1.0 // indirect
	github.com/multiformats/go-multibase v0.2.0 // indirect
	github.com/multiformats/go-multicodec v0.10.0 // indirect
	github.com/multiformats/go-multihash v0.2.3 // indirect
	github.com/multiformats/go-multistream v0.6.1 // indirect
	github.com/multiformats/go-varint v0.1.0 // indirect
	github.com/munnerz/goautoneg v0.0.0-20191010083416-a7dc8b61c822 // indirect
	github.com/pmezard/go-difflib v1.0.0 // indirect
	github.com/prometheus/client_golang v1.22.0 // indirect
	github.com/prometheus/client_model v0.6.2 // indirect
	github.com/prometheus/common v0.64.0 // indirect
	github.com/prometheus/procfs v0.16.1 // indirect
	github.com/spaolacci/murmur3 v1.1.0 // indirect
	github.com/stretchr/testify v1.11.1 // indirect
	go.opentelemetry.io/auto/sdk v1.2.1 // indirect
	go.opentelemetry.io/otel v1.41.0 // indirect
	go.opentelemetry.io/otel/metric v1.41.0 // indirect
	go.opentelemetry.io/otel/trace v1.41.0 // indirect
	go.uber.org/multierr v1.11.0 // indirect
	go.uber.org/zap v1.27.1 // indirect
	golang.org/x/crypto v0.52.0 // indirect
	golang.org/x/exp v0.0.0-20251209150349-8475f28825e9 // indirect
	golang.org/x/net v0.55.0 // indirect
	golang.org/x/sync v0.20.0 // indirect
	golang.org/x/sys v0.45.0 // indirect
	golang.org/x/time v0.12.0 // indirect
	google.golang.org/protobuf v1.36.11 // indirect
	gopkg.in/yaml.v3 v3.0.1 // indirect
	lukechampine.com/blake3 v1.4.1 // indirect
)

replace github.com/celestiaorg/go-header => /repo
