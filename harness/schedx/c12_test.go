package schedx

import (
	"context"
	"errors"
	"fmt"
	"os"
	"strings"
	"testing"
	"time"

	"github.com/celestiaorg/go-header"

	"verif/vk"
)

const readerDeadline = 10 * time.Minute

type readRes struct {
	H   *vk.H
	Err error
}

func (r readRes) String() string {
	switch {
	case r.Err == nil && r.H != nil:
		return fmt.Sprintf("h%d", r.H.Ht)
	case errors.Is(r.Err, context.DeadlineExceeded):
		return "deadline"
	case errors.Is(r.Err, context.Canceled):
		return "canceled"
	case errors.Is(r.Err, header.ErrNotFound):
		return "notfound"
	case r.Err != nil:
		return "err"
	}
	return "zero-nil"
}

func reader(e *Env, name string, ctx context.Context, h uint64) {
	e.Thread(name, func() {
		got, err := e.St.GetByHeight(ctx, h)
		e.Note(name, readRes{got, err})
	})
}

func res(e *Env, name string) readRes {
	r, _ := e.Get(name).(readRes)
	return r
}

func wantHeader(e *Env, x *Exec, name string, h uint64, viol func(string, string, ...any)) {
	r := res(e, name)
	switch {
	case r.Err == nil && r.H != nil && string(r.H.Hash()) == string(e.C[h].Hash()):
	case errors.Is(r.Err, context.DeadlineExceeded):
		viol("lost-wakeup", "%s: GetByHeight(%d) only ended with its context deadline although the header was appended (idle rounds %d)", name, h, x.Idle)
	default:
		viol("wrong-result", "%s: GetByHeight(%d) = %v, %v; the header was appended", name, h, r.H, r.Err)
	}
}

func c12Scenarios(batch int) []Scenario {
	bg := context.Background()
	var out []Scenario
	// S1: one reader, one writer appending contiguously
	out = append(out, Scenario{Name: "S1-reader-vs-append", Batch: batch, Preload: 1,
		Build: func(e *Env) {
			ctx, _ := context.WithTimeout(bg, readerDeadline) //nolint
			reader(e, "R", ctx, 3)
			e.Thread("W", func() { e.Note("Werr", e.St.Append(bg, e.C.Slice(2, 3)...)) })
		},
		Check: func(e *Env, x *Exec, viol func(string, string, ...any)) {
			wantHeader(e, x, "R", 3, viol)
			x.Outcome = res(e, "R").String()
		}})
	// S8: empty store: the reader waits for the last height of the very first batch
	out = append(out, Scenario{Name: "S8-empty-store-first-batch", Batch: batch, Preload: 0,
		Build: func(e *Env) {
			ctx, _ := context.WithTimeout(bg, readerDeadline) //nolint
			reader(e, "R", ctx, 2)
			e.Thread("W", func() { e.Note("Werr", e.St.Append(bg, e.C.Slice(1, 2)...)) })
		},
		Check: func(e *Env, x *Exec, viol func(string, string, ...any)) {
			wantHeader(e, x, "R", 2, viol)
			x.Outcome = res(e, "R").String()
		}})
	// S9: empty store: the reader waits for the very first header (the published height is initialised
	// to it, nothing advances afterwards)
	out = append(out, Scenario{Name: "S9-empty-store-first-header", Batch: batch, Preload: 0,
		Build: func(e *Env) {
			ctx, _ := context.WithTimeout(bg, readerDeadline) //nolint
			reader(e, "R", ctx, 1)
			e.Thread("W", func() { e.Note("Werr", e.St.Append(bg, e.C[1])) })
		},
		Check: func(e *Env, x *Exec, viol func(string, string, ...any)) {
			wantHeader(e, x, "R", 1, viol)
			x.Outcome = res(e, "R").String()
		}})
	// S10: a batch with a gap inside, around the height the reader waits for: the reader must not be
	// woken into a failing lookup, and gets the header once it is appended
	out = append(out, Scenario{Name: "S10-gapped-batch-around-waited-height", Batch: batch, Preload: 1,
		Build: func(e *Env) {
			ctx, _ := context.WithTimeout(bg, readerDeadline) //nolint
			reader(e, "R", ctx, 5)
			e.Thread("W", func() {
				_ = e.St.Append(bg, e.C[2], e.C[3], e.C[4], e.C[7])
				e.Note("Werr", e.St.Append(bg, e.C[5], e.C[6]))
			})
		},
		Check: func(e *Env, x *Exec, viol func(string, string, ...any)) {
			wantHeader(e, x, "R", 5, viol)
			x.Outcome = res(e, "R").String()
		}})
	// S11: a descending batch that is not contiguous with Head
	out = append(out, Scenario{Name: "S11-descending-batch-above-gap", Batch: batch, Preload: 1,
		Build: func(e *Env) {
			ctx, _ := context.WithTimeout(bg, readerDeadline) //nolint
			reader(e, "R", ctx, 4)
			e.Thread("W", func() { e.Note("Werr", e.St.Append(bg, e.C[4], e.C[3])) })
		},
		Check: func(e *Env, x *Exec, viol func(string, string, ...any)) {
			wantHeader(e, x, "R", 4, viol)
			x.Outcome = res(e, "R").String()
		}})
	// S2: reader for a height that is appended non-contiguously first
	out = append(out, Scenario{Name: "S2-gapped-then-filled", Batch: batch, Preload: 1,
		Build: func(e *Env) {
			ctx, _ := context.WithTimeout(bg, readerDeadline) //nolint
			reader(e, "R", ctx, 4)
			e.Thread("A", func() { _ = e.St.Append(bg, e.C[4]) })
			e.Thread("B", func() { _ = e.St.Append(bg, e.C.Slice(2, 3)...) })
		},
		Check: func(e *Env, x *Exec, viol func(string, string, ...any)) {
			wantHeader(e, x, "R", 4, viol)
			x.Outcome = res(e, "R").String()
		}})
	// S3: two readers on one height, one of them cancelled, one writer
	out = append(out, Scenario{Name: "S3-two-readers-one-cancelled", Batch: batch, Preload: 1,
		Build: func(e *Env) {
			ctx1, cancel1 := context.WithTimeout(bg, readerDeadline)
			ctx2, _ := context.WithTimeout(bg, readerDeadline) //nolint
			reader(e, "R1", ctx1, 3)
			reader(e, "R2", ctx2, 3)
			e.Thread("K", func() { cancel1() })
			e.Thread("W", func() { _ = e.St.Append(bg, e.C.Slice(2, 3)...) })
		},
		Check: func(e *Env, x *Exec, viol func(string, string, ...any)) {
			wantHeader(e, x, "R2", 3, viol)
			r1 := res(e, "R1")
			ok := (r1.Err == nil && r1.H != nil && r1.H.Ht == 3) || errors.Is(r1.Err, context.Canceled)
			if !ok {
				viol("cancelled-reader-wrong-result", "R1 (cancelled concurrently) returned %v, %v", r1.H, r1.Err)
			}
			x.Outcome = r1.String() + "/" + res(e, "R2").String()
		}})
	// S4: height at or below Height() that is not stored -> ErrNotFound promptly
	out = append(out, Scenario{Name: "S4-missing-below-height", Batch: batch, Preload: 4,
		Setup: func(e *Env) {
			if err := e.St.DeleteRange(bg, 1, 3); err != nil {
				panic("setup: " + err.Error())
			}
		},
		Build: func(e *Env) {
			ctx, _ := context.WithTimeout(bg, readerDeadline) //nolint
			reader(e, "R", ctx, 2)
			e.Thread("W", func() { _ = e.St.Append(bg, e.C[5]) })
		},
		Check: func(e *Env, x *Exec, viol func(string, string, ...any)) {
			r := res(e, "R")
			if !errors.Is(r.Err, header.ErrNotFound) {
				viol("missing-height-not-notfound", "GetByHeight(2) with Height()>=4 and heights 1,2 deleted returned %v, %v (want ErrNotFound)", r.H, r.Err)
			}
			if x.Idle > 0 {
				viol("missing-height-not-prompt", "GetByHeight(2) needed virtual time to pass (%d idle rounds)", x.Idle)
			}
			x.Outcome = r.String()
		}})
	// S5: reader whose context is cancelled concurrently, nobody appends
	out = append(out, Scenario{Name: "S5-cancel-releases", Batch: batch, Preload: 1,
		Build: func(e *Env) {
			ctx, cancel := context.WithTimeout(bg, readerDeadline)
			reader(e, "R", ctx, 5)
			e.Thread("K", func() { cancel() })
		},
		Check: func(e *Env, x *Exec, viol func(string, string, ...any)) {
			r := res(e, "R")
			if !errors.Is(r.Err, context.Canceled) {
				viol("cancel-does-not-release", "reader with a cancelled context returned %v, %v", r.H, r.Err)
			}
			if x.Idle > 0 {
				viol("cancel-not-prompt", "cancelled reader was only released after virtual time passed (%d idle rounds)", x.Idle)
			}
			x.Outcome = r.String()
		}})
	// S7: the appended header is NOT contiguous with Head and the gap is never filled
	out = append(out, Scenario{Name: "S7-gapped-never-filled", Batch: batch, Preload: 1,
		Build: func(e *Env) {
			ctx, _ := context.WithTimeout(bg, readerDeadline) //nolint
			reader(e, "R", ctx, 4)
			e.Thread("A", func() { _ = e.St.Append(bg, e.C[4]) })
		},
		Check: func(e *Env, x *Exec, viol func(string, string, ...any)) {
			wantHeader(e, x, "R", 4, viol)
			x.Outcome = res(e, "R").String()
		}})
	if !thoroughTier {
		return out
	}
	// S6 (thorough only): two readers vs two single-header writers arriving out of order
	out = append(out, Scenario{Name: "S6-out-of-order-writers", Batch: batch, Preload: 1,
		Build: func(e *Env) {
			ctx, _ := context.WithTimeout(bg, readerDeadline)  //nolint
			ctx2, _ := context.WithTimeout(bg, readerDeadline) //nolint
			reader(e, "R3", ctx, 3)
			reader(e, "R2", ctx2, 2)
			e.Thread("W3", func() { _ = e.St.Append(bg, e.C[3]) })
			e.Thread("W2", func() { _ = e.St.Append(bg, e.C[2]) })
		},
		Check: func(e *Env, x *Exec, viol func(string, string, ...any)) {
			wantHeader(e, x, "R3", 3, viol)
			wantHeader(e, x, "R2", 2, viol)
			x.Outcome = res(e, "R2").String() + "/" + res(e, "R3").String()
		}})
	return out
}

var thoroughTier bool

func runScheduleProperty(t *testing.T, id string, scenarios func(batch int) []Scenario, batches []int, rule string) {
	curPropID = id
	run := vk.NewRun(id, "model_checking")
	thoroughTier = run.Thorough()
	defer run.Finish()
	run.SetRule(rule)
	run.Assume("scheduling points: every sync.Mutex/RWMutex/Once/WaitGroup and sync/atomic operation, channel send/receive/close/select, goroutine start and datastore operation of the store package (instrumented copy generated from the working tree); unsynchronised accesses between two points are not interleaved (a separate -race pass covers them)")
	run.Assume("a preemption = scheduling another thread while the running one could continue, or preferring a non-first ready select clause")

	var rc schedCase
	if is, err := vk.ReplayCase(&rc); is {
		if err != nil {
			t.Fatal(err)
		}
		for _, sc := range scenarios(rc.Batch) {
			if sc.Name == rc.Scenario {
				x, log := execute(t, run, sc, rc.Schedule, true)
				classify(run, sc, x, rc.Schedule)
				for _, l := range log {
					fmt.Println("  ", l)
				}
				fmt.Printf("replayed %s batch %d schedule %v: outcome=%s idle=%d steps=%d violations=%d\n", sc.Name, rc.Batch, rc.Schedule, x.Outcome, x.Idle, x.Steps, run.Violations())
			}
		}
		return
	}
	// iterative preemption bounding with a time slot per scenario: the claimed bound must complete
	// for every scenario; one bound deeper is attempted in the remaining slot time and reported
	// per scenario (an unfinished deeper attempt does not make the claimed bound inexhaustive)
	claimed := vk.Pick(run, 1, 2)
	run.Set("preemption_bound_claimed", claimed)
	if f := os.Getenv("VERIF_SCENARIO"); f != "" {
		// development aid: only the scenarios whose name contains f (such a run never claims exhaustiveness)
		all := scenarios
		scenarios = func(b int) []Scenario {
			var out []Scenario
			for _, sc := range all(b) {
				if strings.Contains(sc.Name, f) {
					out = append(out, sc)
				}
			}
			return out
		}
		run.NotExhaustive("VERIF_SCENARIO filter " + f)
	}
	nslots := len(batches) * len(scenarios(batches[0]))
	slot := vk.Pick(run, 22*time.Minute, 45*time.Minute) / time.Duration(nslots)
	run.Set("time_slot_per_scenario_s", slot.Seconds())
	var total int64
	per := map[string]any{}
	for _, b := range batches {
		for _, sc := range scenarios(b) {
			info := map[string]any{}
			for bound := claimed; bound <= claimed+1; bound++ {
				dl := vk.NewDeadline(slot)
				if bound > claimed {
					dl = vk.NewDeadline(vk.Pick(run, 12*time.Second, slot))
				}
				st := explore(t, run, sc, bound, dl)
				total += st.Execs
				run.AddEval(st.Execs)
				run.AddTransitions(st.Points)
				info[fmt.Sprintf("bound%d", bound)] = map[string]any{"executions": st.Execs, "scheduling_decisions": st.Points, "longest_schedule": st.MaxLen, "outcomes": st.Outcomes, "capped": st.Capped}
				for o := range st.Outcomes {
					run.Distinct(fmt.Sprintf("%s/b%d/%s", sc.Name, b, o))
				}
				if st.Capped {
					if bound == claimed {
						run.NotExhaustive(fmt.Sprintf("time slot exhausted in %s batch %d at the claimed bound %d", sc.Name, b, bound))
					}
					break
				}
			}
			per[fmt.Sprintf("%s/batch%d", sc.Name, b)] = info
			// determinism: replay the default schedule twice
			x1, _ := execute(t, run, sc, nil, false)
			x2, _ := execute(t, run, sc, nil, false)
			if fmt.Sprint(takenOf(x1.Trace)) != fmt.Sprint(takenOf(x2.Trace)) || len(x1.Trace) != len(x2.Trace) || x1.Outcome != x2.Outcome {
				run.HarnessError("replay of the default schedule of %s batch %d is not deterministic (%d vs %d decisions, %s vs %s)", sc.Name, b, len(x1.Trace), len(x2.Trace), x1.Outcome, x2.Outcome)
			}
			run.AddValidated(1)
			run.Sample(map[string]any{"scenario": sc.Name, "batch": b, "default_schedule_decisions": len(x1.Trace), "outcome": x1.Outcome})
		}
	}
	run.AddStates(total)
	run.Set("per_scenario", per)
}

// c12AllScenarios adds the snapshot-transaction datastore flavour of the scenarios in which the waited
// header is written out of the pending batch while the reader is inside GetByHeight.
func c12AllScenarios(batch int) []Scenario {
	out := c12Scenarios(batch)
	if batch != 1 {
		return out
	}
	for _, sc := range c12Scenarios(batch) {
		for _, n := range []string{"S1-", "S10-", "S2-"} {
			if strings.HasPrefix(sc.Name, n) {
				sc.Name += ",txn"
				sc.Txn = true
				out = append(out, sc)
			}
		}
	}
	return out
}

func TestC12(t *testing.T) {
	runScheduleProperty(t, "C12", c12AllScenarios, []int{1, 64},
		"stateless depth-first enumeration of every thread schedule with at most B preemptions of 6 concurrent scenarios on the real store (instrumented copy): reader vs contiguous append; reader vs gapped-then-filled append (2 writers); two readers + canceller + writer; missing height below Height() with a concurrent writer; cancelled reader; two readers vs out-of-order writers; batch sizes 1 and 64; per-execution oracle (reader gets the appended header, never a deadline error; ErrNotFound / cancellation promptly); distinct = (scenario, batch, reader outcome)")
}
