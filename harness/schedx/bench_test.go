package schedx

import (
	"os"
	"testing"
	"time"

	"verif/vk"
)

func TestBenchExec(t *testing.T) {
	if os.Getenv("VERIF_BENCH") == "" {
		t.Skip()
	}
	run := vk.NewRun("BENCH", "other")
	sc := c12Scenarios(1)[0]
	t0 := time.Now()
	n := 300
	steps := 0
	for i := 0; i < n; i++ {
		x, _ := execute(t, run, sc, nil, false)
		steps += x.Steps
	}
	d := time.Since(t0)
	t.Logf("%d execs in %v: %v/exec, %d steps/exec, %v/step", n, d, d/time.Duration(n), steps/n, d/time.Duration(steps))
}
