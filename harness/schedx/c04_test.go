package schedx

import (
	"strings"
	"testing"
)

// c04Scenarios: "once writes are synced" — the part of C04 that depends on what Sync waits for.
// Reuses the two C17 scenarios in which a Sync is followed by non-waiting observations
// (Head, Height, HasAt, Get).
func c04Scenarios(batch int) []Scenario {
	var out []Scenario
	for _, sc := range c17Scenarios(batch) {
		if strings.HasPrefix(sc.Name, "T2-") || strings.HasPrefix(sc.Name, "T6-") {
			out = append(out, sc)
		}
	}
	return out
}

func TestC04(t *testing.T) {
	runScheduleProperty(t, "C04", c04Scenarios, []int{1, 2},
		"schedule part: stateless DFS with preemption bounding over Append / Sync / read interleavings on the real store (instrumented copy): after Sync has returned, every header whose Append returned before is visible to Head, Height, HasAt and Get from any thread, and the final store equals the sequential one")
}
