package schedx

import (
	"context"
	"fmt"
	"strings"
	"testing"
	"time"

	"github.com/celestiaorg/go-header/store"

	"verif/vk"
)

type headObs struct {
	Round    int
	HeadH    uint64
	Height   uint64
	ByHeight string
	ByHash   string
}

func c17Reader(e *Env, name string, rounds int) {
	e.Thread(name, func() {
		bg := context.Background()
		var obs []headObs
		for i := 0; i < rounds; i++ {
			h, err := e.St.Head(bg)
			if err != nil || h == nil {
				obs = append(obs, headObs{Round: i, ByHeight: "head-error"})
				continue
			}
			o := headObs{Round: i, HeadH: h.Ht, Height: e.St.Height()}
			ctx, cancel := context.WithTimeout(bg, time.Minute)
			got, gerr := e.St.GetByHeight(ctx, h.Ht)
			switch {
			case gerr != nil:
				o.ByHeight = "err:" + gerr.Error()
			case string(got.Hash()) != string(h.Hash()):
				o.ByHeight = fmt.Sprintf("other-header(h%d)", got.Ht)
			default:
				o.ByHeight = "ok"
			}
			got2, herr := e.St.Get(ctx, h.Hash())
			switch {
			case herr != nil:
				o.ByHash = "err:" + herr.Error()
			case string(got2.Hash()) != string(h.Hash()):
				o.ByHash = "other-header"
			default:
				o.ByHash = "ok"
			}
			cancel()
			obs = append(obs, o)
		}
		e.Note(name, obs)
	})
}

func checkReader(e *Env, name string, viol func(string, string, ...any)) string {
	obs, _ := e.Get(name).([]headObs)
	var lastHead, lastHeight uint64
	out := ""
	for _, o := range obs {
		if o.ByHeight == "head-error" {
			viol("head-unavailable", "%s round %d: Head() failed on a non-empty store", name, o.Round)
			continue
		}
		if o.HeadH < lastHead {
			viol("head-decreased", "%s: Head().Height() went from %d to %d", name, lastHead, o.HeadH)
		}
		if o.Height < lastHeight {
			viol("height-decreased", "%s: Height() went from %d to %d", name, lastHeight, o.Height)
		}
		lastHead, lastHeight = o.HeadH, o.Height
		if o.ByHeight != "ok" {
			viol("head-not-retrievable-by-height", "%s round %d: Head() returned height %d but GetByHeight(%d) = %s", name, o.Round, o.HeadH, o.HeadH, o.ByHeight)
		}
		if o.ByHash != "ok" {
			viol("head-not-retrievable-by-hash", "%s round %d: Head() returned height %d but Get(its hash) = %s", name, o.Round, o.HeadH, o.ByHash)
		}
		out += fmt.Sprintf("%d/%d,", o.HeadH, o.Height)
	}
	return out
}

// finalState checks the quiescent store after all threads finished and a Sync.
func finalState(e *Env, wantTail, wantHead uint64, viol func(string, string, ...any)) {
	bg := context.Background()
	h, herr := e.St.Head(bg)
	tl, terr := e.St.Tail(bg)
	if herr != nil || terr != nil || h.Ht != wantHead || tl.Ht != wantTail {
		viol("final-state-differs-from-sequential", "after all writers finished: Head %v (%v) Tail %v (%v), a sequential execution gives Tail %d Head %d", h, herr, tl, terr, wantTail, wantHead)
		return
	}
	if e.St.Height() != wantHead {
		viol("final-state-differs-from-sequential", "Height()=%d, want %d", e.St.Height(), wantHead)
	}
	for ht := wantTail; ht <= wantHead; ht++ {
		ctx, cancel := context.WithTimeout(bg, time.Second)
		got, err := e.St.GetByHeight(ctx, ht)
		cancel()
		if err != nil || string(got.Hash()) != string(e.C[ht].Hash()) {
			viol("final-chain-has-gap", "GetByHeight(%d) = %v, %v with Tail %d Head %d", ht, got, err, wantTail, wantHead)
		}
		if _, err := e.St.Get(bg, e.C[ht].Hash()); err != nil {
			viol("final-chain-has-gap", "Get(hash of %d): %v", ht, err)
		}
	}
}

func c17Scenarios(batch int) []Scenario {
	bg := context.Background()
	var out []Scenario
	// T1: two writers (the second one leaves a gap until the first lands) and a reader
	out = append(out, Scenario{Name: "T1-two-writers-one-reader", Batch: batch, Preload: 2,
		Build: func(e *Env) {
			e.Thread("W1", func() { _ = e.St.Append(bg, e.C.Slice(3, 4)...) })
			e.Thread("W2", func() { _ = e.St.Append(bg, e.C.Slice(5, 6)...) })
			c17Reader(e, "R", 2)
		},
		Check: func(e *Env, x *Exec, viol func(string, string, ...any)) {
			x.Outcome = checkReader(e, "R", viol)
			finalState(e, 1, 6, viol)
		}})
	// T2: append + Sync makes a header readable for everybody
	out = append(out, Scenario{Name: "T2-synced-is-readable", Batch: batch, Preload: 2,
		Build: func(e *Env) {
			e.Thread("W", func() {
				for _, h := range []uint64{3, 4} {
					if err := e.St.Append(bg, e.C[h]); err != nil {
						e.Note("werr", err)
						return
					}
					ctx, cancel := context.WithTimeout(bg, time.Minute)
					err := e.St.Sync(ctx)
					cancel()
					if err != nil {
						e.Note("werr", err)
						return
					}
					e.Note("synced", h)
				}
			})
			e.Thread("R", func() {
				var seen []string
				for i := 0; i < 2; i++ {
					s, _ := e.Get("synced").(uint64)
					if s == 0 {
						seen = append(seen, "none")
						continue
					}
					ctx, cancel := context.WithTimeout(bg, time.Minute)
					got, err := e.St.GetByHeight(ctx, s)
					_, herr := e.St.Get(ctx, e.C[s].Hash())
					cancel()
					if err != nil || got == nil || got.Ht != s || herr != nil {
						seen = append(seen, fmt.Sprintf("BAD(%d: %v / %v)", s, err, herr))
					} else {
						seen = append(seen, fmt.Sprintf("ok%d", s))
					}
				}
				e.Note("R", seen)
			})
		},
		Check: func(e *Env, x *Exec, viol func(string, string, ...any)) {
			if err, _ := e.Get("werr").(error); err != nil {
				viol("append-or-sync-failed", "writer: %v", err)
			}
			seen, _ := e.Get("R").([]string)
			for _, s := range seen {
				if len(s) > 3 && s[:3] == "BAD" {
					viol("synced-header-unreadable", "a header whose Append was followed by Sync is not readable: %s", s)
				}
			}
			x.Outcome = fmt.Sprint(seen)
			finalState(e, 1, 4, viol)
		}})
	// T3: tail-side DeleteRange racing with appends at the head
	out = append(out, Scenario{Name: "T3-tail-delete-vs-append", Batch: batch, Preload: 2,
		Build: func(e *Env) {
			e.Thread("W", func() { _ = e.St.Append(bg, e.C.Slice(3, 4)...) })
			e.Thread("D", func() {
				ctx, cancel := context.WithTimeout(bg, time.Minute)
				defer cancel()
				e.Note("derr", e.St.DeleteRange(ctx, 1, 2))
			})
		},
		Check: func(e *Env, x *Exec, viol func(string, string, ...any)) {
			if err, _ := e.Get("derr").(error); err != nil {
				viol("tail-delete-failed", "DeleteRange(1,2) racing with an append failed: %v", err)
				x.Outcome = "delete-error"
				return
			}
			x.Outcome = "ok"
			finalState(e, 2, 4, viol)
			ctx, cancel := context.WithTimeout(bg, time.Second)
			if got, err := e.St.GetByHeight(ctx, 1); err == nil {
				viol("deleted-header-readable", "height 1 was deleted but GetByHeight(1) = %v", got)
			}
			cancel()
		}})
	// T5: tail-side DeleteRange racing with two separate appends at the head
	out = append(out, Scenario{Name: "T5-tail-delete-vs-two-appends", Batch: batch, Preload: 2,
		Build: func(e *Env) {
			e.Thread("W", func() {
				_ = e.St.Append(bg, e.C[3])
				_ = e.St.Append(bg, e.C[4])
			})
			e.Thread("D", func() {
				ctx, cancel := context.WithTimeout(bg, time.Minute)
				defer cancel()
				e.Note("derr", e.St.DeleteRange(ctx, 1, 2))
			})
			c17Reader(e, "R", 2)
		},
		Check: func(e *Env, x *Exec, viol func(string, string, ...any)) {
			if err, _ := e.Get("derr").(error); err != nil {
				viol("tail-delete-failed", "DeleteRange(1,2) racing with appends failed: %v", err)
				x.Outcome = "delete-error"
				return
			}
			x.Outcome = checkReader(e, "R", viol)
			finalState(e, 2, 4, viol)
		}})
	// T7: tail-side DeleteRange up to the current head + 1 racing with the append of exactly that next header:
	// whichever way round they go, a sequential execution leaves the store holding only the new header
	out = append(out, Scenario{Name: "T7-delete-up-to-head-vs-append-of-next", Batch: batch, Preload: 3,
		Build: func(e *Env) {
			e.Thread("W", func() { e.Note("werr", e.St.Append(bg, e.C[4])) })
			e.Thread("D", func() {
				ctx, cancel := context.WithTimeout(bg, time.Minute)
				defer cancel()
				e.Note("derr", e.St.DeleteRange(ctx, 1, 4))
			})
		},
		Check: func(e *Env, x *Exec, viol func(string, string, ...any)) {
			if err, _ := e.Get("werr").(error); err != nil {
				viol("append-failed", "Append(c4) racing with DeleteRange(1,4) failed: %v", err)
			}
			if err, _ := e.Get("derr").(error); err != nil {
				viol("tail-delete-failed", "DeleteRange(1,4) racing with the append of c4 failed: %v", err)
				x.Outcome = "delete-error"
				return
			}
			x.Outcome = "ok"
			// the whole-chain deletion (taken when D reads Head before c4 is applied) resets the pointers
			// without synchronising with the flush loop: a distinct clause for "Append returned nil but
			// Head and/or Tail stay unset", so that this outcome is identified separately from any other
			// The whole-chain deletion (taken when D looks for c4 before it is applied) resets the in-memory
			// pointers and the published height without synchronising with the flush loop. Whether D took
			// that path is read off the commit log (it deletes the head pointer key); what goes wrong then
			// is reported under its own clause, so that this outcome is identified separately from any
			// failure of the ordinary tail-side path.
			_, _, headK, _ := store.VerifKeys[*vk.H](e.C[1])
			wiped := false
			for _, le := range e.DS.Log() {
				for _, op := range le.Ops {
					if op.Del && strings.HasSuffix(op.Key, headK) {
						wiped = true
					}
				}
			}
			if wiped {
				x.Outcome = "ok-wiped"
				bad := false
				finalState(e, 4, 4, func(clause, format string, a ...any) {
					if !bad {
						viol("wipe-raced-append", "DeleteRange took the whole-chain path while Append(c4) was queued; both returned nil but: "+format, a...)
					}
					bad = true
				})
				if bad {
					x.Outcome = "wipe-raced-append"
				}
				return
			}
			finalState(e, 4, 4, viol)
			for ht := uint64(1); ht < 4; ht++ {
				ctx, cancel := context.WithTimeout(bg, time.Second)
				if got, err := e.St.GetByHeight(ctx, ht); err == nil {
					viol("deleted-header-readable", "height %d was deleted but GetByHeight = %v", ht, got)
				}
				cancel()
			}
		}})
	// T6: Sync issued by another thread after Append has returned: everything appended before is
	// visible to non-waiting reads right after Sync
	out = append(out, Scenario{Name: "T6-sync-from-another-thread-after-append", Batch: batch, Preload: 2,
		Build: func(e *Env) {
			e.Thread("W", func() {
				if err := e.St.Append(bg, e.C[3]); err == nil {
					e.Note("appended", true)
				}
			})
			e.Thread("S", func() {
				if ok, _ := e.Get("appended").(bool); !ok {
					e.Note("S", "not-yet")
					return
				}
				ctx, cancel := context.WithTimeout(bg, time.Minute)
				defer cancel()
				if err := e.St.Sync(ctx); err != nil {
					e.Note("S", "sync-error: "+err.Error())
					return
				}
				_, gerr := e.St.Get(ctx, e.C[3].Hash())
				hasAt := e.St.HasAt(ctx, 3)
				var hh uint64
				if h, err := e.St.Head(ctx); err == nil {
					hh = h.Ht
				}
				e.Note("S", fmt.Sprintf("get=%v hasAt=%v head=%d height=%d", gerr == nil, hasAt, hh, e.St.Height()))
			})
		},
		Check: func(e *Env, x *Exec, viol func(string, string, ...any)) {
			sres, _ := e.Get("S").(string)
			x.Outcome = sres
			if sres != "not-yet" && sres != "get=true hasAt=true head=3 height=3" {
				viol("synced-header-unreadable", "Append(c3) had returned, then Sync returned nil, but right after it: %s", sres)
			}
			finalState(e, 1, 3, viol)
		}})
	if thoroughTier {
		out = append(out, Scenario{Name: "T4-three-writers-out-of-order", Batch: batch, Preload: 2,
			Build: func(e *Env) {
				e.Thread("W3", func() { _ = e.St.Append(bg, e.C[5]) })
				e.Thread("W2", func() { _ = e.St.Append(bg, e.C[4]) })
				e.Thread("W1", func() { _ = e.St.Append(bg, e.C[3]) })
				c17Reader(e, "R", 2)
			},
			Check: func(e *Env, x *Exec, viol func(string, string, ...any)) {
				x.Outcome = checkReader(e, "R", viol)
				finalState(e, 1, 5, viol)
			}})
	}
	return out
}

func TestC17(t *testing.T) {
	runScheduleProperty(t, "C17", c17Scenarios, []int{1, 2, 64},
		"stateless depth-first enumeration of every thread schedule with at most B preemptions of concurrent scenarios on the real store (instrumented copy): two writers (gap then fill) + a reader doing Head/Height/GetByHeight/Get rounds; append+Sync then read from another thread; Sync from another thread after Append returned, followed by non-waiting reads; tail-side DeleteRange racing with appends at the head; (thorough) three out-of-order writers + reader; batch sizes 1, 2, 64; per-execution oracle: Head and Height never decrease, Head's header retrievable by height and hash, synced headers readable, final state equals the sequential one and is gap-free; distinct = (scenario, batch, reader observation sequence)")
}
