package schedx

import (
	"context"
	"fmt"
	"runtime"
	"sync"
	"testing"
	"time"

	"github.com/celestiaorg/go-header/store"
)

// c14Scenarios: OnDelete registrations racing with each other (and with a deletion): every handler
// whose registration has returned is called exactly once for a header deleted afterwards.
func c14Scenarios(batch int) []Scenario {
	bg := context.Background()
	type rec struct {
		mu    sync.Mutex
		calls map[string][]uint64
	}
	mk := func(e *Env) *rec {
		r := &rec{calls: map[string][]uint64{}}
		e.Note("rec", r)
		return r
	}
	reg := func(e *Env, r *rec, name string) {
		e.Thread(name, func() {
			e.St.OnDelete(func(_ context.Context, h uint64) error {
				r.mu.Lock()
				r.calls[name] = append(r.calls[name], h)
				r.mu.Unlock()
				return nil
			})
		})
	}
	var out []Scenario
	out = append(out, Scenario{Name: "H1-three-concurrent-registrations", Batch: batch, Preload: 3,
		Build: func(e *Env) {
			r := mk(e)
			reg(e, r, "A")
			reg(e, r, "B")
			reg(e, r, "C")
		},
		Check: func(e *Env, x *Exec, viol func(string, string, ...any)) {
			r := e.Get("rec").(*rec)
			ctx, cancel := context.WithTimeout(bg, time.Minute)
			defer cancel()
			if err := e.St.DeleteRange(ctx, 1, 2); err != nil {
				viol("delete-failed", "DeleteRange(1,2) after the registrations: %v", err)
				return
			}
			r.mu.Lock()
			defer r.mu.Unlock()
			x.Outcome = fmt.Sprint(r.calls)
			for _, n := range []string{"A", "B", "C"} {
				if len(r.calls[n]) != 1 || r.calls[n][0] != 1 {
					viol("registered-handler-not-called", "handler %s was registered (OnDelete returned) before DeleteRange(1,2) but was called for %v, want [1]", n, r.calls[n])
				}
			}
		}})
	// P*: the parallel deletion path (threshold hook lowered to 2, three workers with GOMAXPROCS=1) under the
	// explorer: the dispatcher and the workers are controlled threads, the handler rejects the heights of set R.
	type prec struct {
		mu       sync.Mutex
		nilCalls map[uint64]int
		errCalls map[uint64]int
		unread   []uint64 // heights whose header was not readable inside the handler
		reject   map[uint64]bool
		err1     error
		done1    bool
	}
	const top = 6 // DeleteRange(1, top) on c1..c6
	rejects := [][]uint64{{}, {3}, {2, 4}}
	if thoroughTier {
		rejects = append(rejects, []uint64{1}, []uint64{5}, []uint64{1, 2}, []uint64{4, 5})
	}
	for _, R := range rejects {
		R := R
		out = append(out, Scenario{Name: fmt.Sprintf("P-parallel-delete-reject%v", R), Batch: batch, Preload: top,
			Setup: func(e *Env) {
				runtime.GOMAXPROCS(1)
				e.Note("oldthr", store.VerifSetDeleteRangeParallelThreshold(2))
				r := &prec{nilCalls: map[uint64]int{}, errCalls: map[uint64]int{}, reject: map[uint64]bool{}}
				for _, h := range R {
					r.reject[h] = true
				}
				e.Note("prec", r)
				e.St.OnDelete(func(ctx context.Context, h uint64) error {
					got, gerr := e.St.GetByHeight(ctx, h)
					r.mu.Lock()
					defer r.mu.Unlock()
					if gerr != nil || got.Height() != h {
						r.unread = append(r.unread, h)
					}
					if r.reject[h] {
						r.errCalls[h]++
						return fmt.Errorf("handler rejects %d", h)
					}
					r.nilCalls[h]++
					return nil
				})
			},
			Build: func(e *Env) {
				r := e.Get("prec").(*prec)
				e.Thread("D", func() {
					ctx, cancel := context.WithTimeout(bg, time.Hour)
					defer cancel()
					err := e.St.DeleteRange(ctx, 1, top)
					r.mu.Lock()
					r.err1, r.done1 = err, true
					r.mu.Unlock()
				})
			},
			Check: func(e *Env, x *Exec, viol func(string, string, ...any)) {
				defer store.VerifSetDeleteRangeParallelThreshold(e.Get("oldthr").(uint64))
				r := e.Get("prec").(*prec)
				r.mu.Lock()
				defer r.mu.Unlock()
				if !r.done1 {
					viol("delete-did-not-return", "DeleteRange(1,%d) on the parallel path did not return", top)
					return
				}
				ctx, cancel := context.WithTimeout(bg, time.Minute)
				defer cancel()
				readable := func(h uint64) bool {
					got, err := e.St.GetByHeight(ctx, h)
					return err == nil && got.Height() == h && e.C[h].Hash().String() == got.Hash().String()
				}
				anyErrCall := false
				for _, n := range r.errCalls {
					anyErrCall = anyErrCall || n > 0
				}
				removed := ""
				for h := uint64(1); h < top; h++ {
					if !readable(h) {
						removed += fmt.Sprint(h)
					}
				}
				tail, terr := e.St.Tail(ctx)
				x.Outcome = fmt.Sprintf("err=%v removed=%s tail=%d", r.err1 != nil, removed, tail.Height())
				if len(r.unread) > 0 {
					viol("handler-saw-header-unreadable", "handler was called for %v while GetByHeight did not return that header", r.unread)
				}
				if anyErrCall && r.err1 == nil {
					viol("handler-error-swallowed", "a handler returned an error (%v) but DeleteRange returned nil", r.errCalls)
				}
				if !anyErrCall && r.err1 != nil {
					viol("delete-failed-without-handler-failure", "no handler failed but DeleteRange returned %v", r.err1)
				}
				for h := uint64(1); h < top; h++ {
					if n := r.nilCalls[h] + r.errCalls[h]; n > 1 {
						viol("handler-called-twice", "handler called %d times for height %d in one DeleteRange", n, h)
					}
					if !readable(h) {
						if r.reject[h] {
							viol("removed-despite-handler-failure", "height %d was removed although its handler fails", h)
						} else if r.nilCalls[h] != 1 {
							viol("removed-without-handler", "height %d was removed but its handler returned nil %d times", h, r.nilCalls[h])
						}
					}
				}
				if terr != nil {
					viol("tail-unresolved", "Tail() after the call: %v", terr)
					return
				}
				if len(R) == 0 {
					if tail.Height() != top || removed != "12345" {
						viol("complete-delete-incomplete", "DeleteRange(1,%d) returned %v but tail=%d removed=%s", top, r.err1, tail.Height(), removed)
					}
					return
				}
				if r.err1 != nil && tail.Height() > R[0] {
					viol("tail-moved-past-failed-height", "tail=%d after a failure although the handler rejects %d", tail.Height(), R[0])
				}
				// retry of the tail-side deletion once the handler recovered: completes, and calls the handler
				// again exactly for what is still there
				still := map[uint64]bool{}
				for h := uint64(1); h < top; h++ {
					still[h] = readable(h)
				}
				before := map[uint64]int{}
				for h, n := range r.nilCalls {
					before[h] = n
				}
				r.reject = map[uint64]bool{}
				r.mu.Unlock()
				err2 := e.St.DeleteRange(ctx, tail.Height(), top)
				r.mu.Lock()
				if err2 != nil {
					viol("retry-failed", "retry DeleteRange(%d,%d) after the handler recovered: %v", tail.Height(), top, err2)
					return
				}
				for h := uint64(1); h < top; h++ {
					if readable(h) {
						viol("retry-incomplete", "height %d still readable after the successful retry", h)
					}
					want := 0
					if still[h] {
						want = 1
					}
					if got := r.nilCalls[h] - before[h]; got != want {
						viol("retry-handler-calls", "height %d (present before the retry: %v): handler called %d times by the retry, want %d", h, still[h], got, want)
					}
				}
				if t2, err := e.St.Tail(ctx); err != nil || t2.Height() != top {
					viol("retry-tail", "tail after the retry = %d (%v), want %d", t2.Height(), err, top)
				}
			}})
	}
	return out
}

func TestC14(t *testing.T) {
	runScheduleProperty(t, "C14", c14Scenarios, []int{1},
		"schedule part: stateless DFS with preemption bounding over three concurrent OnDelete registrations on the real store (instrumented copy); afterwards one header is deleted: every registered handler is called exactly once for it")
}
