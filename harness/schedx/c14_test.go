package schedx

import (
	"context"
	"fmt"
	"sync"
	"testing"
	"time"
)

// c14Scenarios: OnDelete registrations racing with each other (and with a deletion): every handler
// whose registration has returned is called exactly once for a header deleted afterwards.
func c14Scenarios(batch int) []Scenario {
	bg := context.Background()
	type rec struct {
		mu    sync.Mutex
		calls map[string][]uint64
	}
	mk := func(e *Env) *rec {
		r := &rec{calls: map[string][]uint64{}}
		e.Note("rec", r)
		return r
	}
	reg := func(e *Env, r *rec, name string) {
		e.Thread(name, func() {
			e.St.OnDelete(func(_ context.Context, h uint64) error {
				r.mu.Lock()
				r.calls[name] = append(r.calls[name], h)
				r.mu.Unlock()
				return nil
			})
		})
	}
	var out []Scenario
	out = append(out, Scenario{Name: "H1-three-concurrent-registrations", Batch: batch, Preload: 3,
		Build: func(e *Env) {
			r := mk(e)
			reg(e, r, "A")
			reg(e, r, "B")
			reg(e, r, "C")
		},
		Check: func(e *Env, x *Exec, viol func(string, string, ...any)) {
			r := e.Get("rec").(*rec)
			ctx, cancel := context.WithTimeout(bg, time.Minute)
			defer cancel()
			if err := e.St.DeleteRange(ctx, 1, 2); err != nil {
				viol("delete-failed", "DeleteRange(1,2) after the registrations: %v", err)
				return
			}
			r.mu.Lock()
			defer r.mu.Unlock()
			x.Outcome = fmt.Sprint(r.calls)
			for _, n := range []string{"A", "B", "C"} {
				if len(r.calls[n]) != 1 || r.calls[n][0] != 1 {
					viol("registered-handler-not-called", "handler %s was registered (OnDelete returned) before DeleteRange(1,2) but was called for %v, want [1]", n, r.calls[n])
				}
			}
		}})
	return out
}

func TestC14(t *testing.T) {
	runScheduleProperty(t, "C14", c14Scenarios, []int{1},
		"schedule part: stateless DFS with preemption bounding over three concurrent OnDelete registrations on the real store (instrumented copy); afterwards one header is deleted: every registered handler is called exactly once for it")
}
